(* C13 — margin positions agree with pool totals and are liquidated only when unhealthy. *)
From Coq Require Import ZArith List Bool.
From Sif Require Import Base.Outcome Base.SdkMath Base.Store Base.Bank Model.Margin Proofs.MarginProofs Proofs.MarginLoop.
Import ListNotations.
Local Open Scope Z_scope.

(* SumInv s: for every pool and each side, custody recorded = sum of the custody of that pool's positions,
   liabilities recorded = sum of their liabilities; open-position counter = number of stored positions. *)

(* ---- Open ---- *)
(* an accepted Open keeps SumInv, moves exactly the stated collateral from the trader to the module account (no other
   bank operation), stores one new position under a fresh id, which lives on exactly one pool (one asset native, the
   other the pool's: after the fix of finding F-17), with the stated collateral amount, whose health on the state
   the transaction leaves behind exceeds the safety factor *)
Theorem C13_open : forall s hl signer coll borrow amt lev c' u,
  SumInv s -> find_mtp s signer 0 = None -> find_mtp s signer (ms_count s + 1) = None ->
  open_msg s hl signer coll borrow amt lev = (c', Ok u) ->
  let a := if coll =? ROWAN then borrow else coll in
  let M := c_mtp c' in
  SumInv (c_s c') /\
  find_mtp (c_s c') signer (ms_count s + 1) = Some M /\ on_pool a M /\
  m_coll_asset M = coll /\ m_cust_asset M = borrow /\ m_coll_amt M = amt /\
  send (ms_bank s) signer CLP_MODULE coll amt = Some (ms_bank (c_s c')) /\
  (exists lr, mtp_health (c_s c') a M (c_pool c') = Ok lr /\ mp_safety (ms_params s) < lr) /\
  get a (ms_pools (c_s c')) = Some (c_pool c').
Proof. exact open_preserves. Qed.
Print Assumptions C13_open.

(* ---- Close / AdminClose ---- *)
(* hypotheses on the position closed: it lives on one pool, and the module account holds at least its custody
   (C01), so the fund payment of an incremental interest payment cannot fail half way; percentages in [0,1] *)
Theorem C13_close : forall s signer id c' r,
  SumInv s -> pct_ok s -> (forall m, find_mtp s signer id = Some m -> position_ok s signer id m) ->
  close_msg s signer id = (c', Ok r) -> SumInv (c_s c').
Proof. exact close_preserves. Qed.
Print Assumptions C13_close.

(* MsgClose looks the position up under the signer's own address: nobody closes somebody else's position with it *)
Theorem C13_close_needs_owner : forall s signer id c' r,
  close_msg s signer id = (c', Ok r) -> exists m, find_mtp s signer id = Some m.
Proof. exact close_needs_owner. Qed.
Print Assumptions C13_close_needs_owner.

(* AdminClose (healthy or not) succeeds only for a margin administrator *)
Theorem C13_admin_close : forall s adm addr id tf c' r,
  SumInv s -> pct_ok s -> (forall m, find_mtp s addr id = Some m -> position_ok s addr id m) ->
  admin_close_msg s adm addr id tf = (c', Ok r) -> SumInv (c_s c') /\ adm = true.
Proof. exact admin_close_preserves. Qed.
Print Assumptions C13_admin_close.

(* what a completed close leaves behind: the position is gone from every sum (tot g s' = tot g s - g m for EVERY
   function g of a position, e.g. its custody, its liabilities, 1), the pool totals drop by exactly its share *)
Theorem C13_close_removes_everything : forall s a p m addr id s',
  SumInv s -> get a (ms_pools s) = Some p -> find_mtp s addr id = Some m -> on_pool a m ->
  Closed (mkCtx s p m a addr id) s' -> SumInv s'.
Proof. exact Closed_SumInv. Qed.
Print Assumptions C13_close_removes_everything.

(* ---- BeginBlock: one position ---- *)
(* whatever happens to a position (interest only, liquidation, error, panic under recover()) the loop invariant —
   in-memory pool = sums over the stored positions, other pools and the counter agree — is kept (after the fix of
   finding F-9); it is liquidated only if the health computed for it is at most the safety factor *)
Theorem C13_process_position : forall a s p m addr id c' o,
  process_mtp (mkCtx s p m a addr id) = (c', o) ->
  epoch_position s = 0 ->
  LoopInv a s p -> find_mtp s addr id = Some m -> on_pool a m -> id <> 0 -> pct_ok s ->
  0 <= m_cust_amt m <= bal (ms_bank s) CLP_MODULE (m_cust_asset m) ->
  LoopInv a (c_s c') (c_pool c') /\
  (forall h, o = Ok h -> h <= mp_safety (ms_params s)).
Proof. exact process_mtp_step. Qed.
Print Assumptions C13_process_position.

(* ---- BeginBlock: a whole pool. PARTIAL: steps_ok states per step that the listed position is still stored as
   listed when its turn comes and that the module account covers its custody (true because a step writes only its
   own key and C01 holds; not proved here) ---- *)
Theorem C13_begin_block_pool_partial : forall s asset pool new_rate s' closed,
  SumInv s -> get asset (ms_pools s) = Some pool -> asset <> ROWAN ->
  begin_block_pool s asset pool new_rate = Ok (s', closed) ->
  steps_ok asset (bb_s1 s asset pool new_rate) (bb_p1 pool new_rate) (bb_list (bb_s1 s asset pool new_rate) asset) ->
  SumInv s' /\ (forall addr id h, In (addr, id, h) closed -> exists st0, h <= mp_safety (ms_params st0)).
Proof. exact begin_block_pool_preserves. Qed.
Print Assumptions C13_begin_block_pool_partial.

(* ---- BeginBlock: a whole pool, with no condition on the intermediate states of the loop. What the pass relies on is a
   property of the state it starts from (BBReady): position stores in key order, non-negative custody amounts and pool
   balances, the module account covers the pool's balance + custody on both sides, the block is an epoch boundary, fund
   percentage within [0,1], fund addresses and position owners are not the module account, ids non-zero, every position
   on exactly one pool. Proved through (A) a frame property of every keeper function - it leaves all other stored
   positions, parameters and height alone -, (B) non-negativity of what sdk.Uint arithmetic writes, (C) the gap theorem
   of C01 for the position step. *)
Theorem C13_begin_block_pool : forall s asset pool new_rate s' closed,
  SumInv s -> get asset (ms_pools s) = Some pool -> asset <> ROWAN -> BBReady s asset pool ->
  begin_block_pool s asset pool new_rate = Ok (s', closed) ->
  SumInv s' /\ (forall addr id h, In (addr, id, h) closed -> exists st0, h <= mp_safety (ms_params st0)).
Proof. exact begin_block_pool_full. Qed.
Print Assumptions C13_begin_block_pool.
(* the frame: processing one position changes no other stored position, no parameter, not the height *)
Theorem C13_position_step_frame : forall c c' o, process_mtp c = (c', o) -> FR c c'.
Proof. exact frames_process_mtp. Qed.
Print Assumptions C13_position_step_frame.

(* interest payments keep the position and the pool linked: same custody moved on both *)
Theorem C13_interest_keeps_link : forall i c c' o li,
  handle_interest_payment i c = (c', o) -> interest_hyps c -> Link true li c ->
  match o with Panic => True | Err _ => False | Ok _ => Keeps li c c' end.
Proof. exact handle_interest_any. Qed.
Print Assumptions C13_interest_keeps_link.

(* a concrete, non-trivial state meets the hypotheses: one pool, one position, a liquidation *)
Example C13_example :
  let m := mkMtp 0 1000 1000 0 0 0 1 1999 (2 * PREC) 0 in
  let p := mkMPool 1000000 2000000 1000 0 0 1999 0 0 0 0 PREC 1 10 in
  let ps := mkMParams (2 * PREC) (105 * PREC / 100) 1 false 0 21 0 20 [1] [] false 100 true 0 0 1 in
  let s := mkMState (mkBank [(1, [(0, 5000000); (1, 5000000)])] []) [(1, p)] [(12, [(1, m)])] 1 1 7 ps [] 0 [] 0 in
  SumInv s /\ position_ok s 12 1 m /\ on_pool 1 m /\ epoch_position s = 0 /\
  exists c' h, process_mtp (mkCtx s p m 1 12 1) = (c', Ok h) /\ h <= mp_safety ps /\ find_mtp (c_s c') 12 1 = None.
Proof.
  cbv zeta. split; [|split; [|split; [|split]]].
  - split; [|reflexivity]. intros a p0 Hg Hr. cbn [ms_pools get] in Hg. destruct (1 <? a); [discriminate Hg|]. destruct (Z.eqb_spec 1 a) as [<-|]; [|discriminate Hg].
    injection Hg as <-. vm_compute. repeat split; reflexivity.
  - unfold position_ok, on_pool. split; [split; [vm_compute; discriminate|left; split; reflexivity]|]. split; [discriminate|]. split; vm_compute; discriminate.
  - unfold on_pool. split; [vm_compute; discriminate|]. left; split; reflexivity.
  - reflexivity.
  - eexists _, _. split; [vm_compute; reflexivity|]. split; vm_compute; [discriminate|reflexivity].
Qed.

(* non-vacuity of the pass theorem: the state of C13_example is ready, and the pass liquidates its position *)
Example C13_pass_example :
  let m := mkMtp 0 1000 1000 0 0 0 1 1999 (2 * PREC) 0 in
  let p := mkMPool 1000000 2000000 1000 0 0 1999 0 0 0 0 PREC 1 10 in
  let ps := mkMParams (2 * PREC) (105 * PREC / 100) 1 false 0 21 0 20 [1] [] false 100 true 0 0 1 in
  let s := mkMState (mkBank [(1, [(0, 5000000); (1, 5000000)])] []) [(1, p)] [(12, [(1, m)])] 1 1 7 ps [] 0 [] 0 in
  BBReady s 1 p /\
  exists s' h, begin_block_pool s 1 p (PREC, 1, 10) = Ok (s', [(12, 1, h)]) /\ all_mtps s' = [].
Proof.
  cbv zeta. split.
  - unfold BBReady. split; [split; [exists 0; cbn; auto with zarith|constructor; [exists 0; cbn; auto with zarith|constructor]]|].
    split.
    { intros addr id m Hf. unfold find_mtp, mtps_of in Hf. cbn [ms_mtps get] in Hf.
      destruct (12 <? addr); [discriminate Hf|]. destruct (12 =? addr); [|discriminate Hf]. cbn [get] in Hf.
      destruct (1 <? id); [discriminate Hf|]. destruct (1 =? id); [|discriminate Hf]. injection Hf as <-. vm_compute. discriminate. }
    split; [vm_compute; discriminate|]. split; [vm_compute; discriminate|]. split; [vm_compute; discriminate|]. split; [vm_compute; discriminate|].
    split; [reflexivity|]. split; [vm_compute; split; discriminate|]. split; [vm_compute; split; discriminate|].
    intros addr id m Hf. unfold find_mtp, mtps_of in Hf. cbn [ms_mtps get] in Hf.
    destruct (Z.ltb_spec 12 addr); [discriminate Hf|]. destruct (Z.eqb_spec 12 addr) as [<-|]; [|discriminate Hf]. cbn [get] in Hf.
    destruct (Z.ltb_spec 1 id); [discriminate Hf|]. destruct (Z.eqb_spec 1 id) as [<-|]; [|discriminate Hf]. injection Hf as <-.
    split; [discriminate|]. split; [vm_compute; discriminate|]. unfold on_pool. split; [vm_compute; discriminate|]. left; split; reflexivity.
  - eexists _, _. split; vm_compute; reflexivity.
Qed.

(* ---- BeginBlock as a whole: all pools of the block in turn. MReady is a property of the state at the start of the
   block (key order of the position and pool stores, non-negative custody amounts and balances, every position has a
   non-zero id, an owner other than the module account and exactly one native asset, fund percentage in [0,1], fund
   addresses other than the module account, and the module account covers each pool's external balance + custody and the
   sum over all pools of native balance + custody); it holds again afterwards, so the theorem applies block after block. *)
Theorem C13_begin_block : forall s rates s' closed,
  SumInv s -> MReady s -> begin_block_margin s rates = Ok (s', closed) ->
  SumInv s' /\ MReady s' /\ (forall addr id h, In (addr, id, h) closed -> exists st0, h <= mp_safety (ms_params st0)).
Proof. exact begin_block_margin_full. Qed.
Print Assumptions C13_begin_block.

Example C13_block_example :
  let m := mkMtp 0 1000 1000 0 0 0 1 1999 (2 * PREC) 0 in
  let p := mkMPool 1000000 2000000 1000 0 0 1999 0 0 0 0 PREC 1 10 in
  let ps := mkMParams (2 * PREC) (105 * PREC / 100) 1 false 0 21 0 20 [1] [] false 100 true 0 0 1 in
  let s := mkMState (mkBank [(1, [(0, 5000000); (1, 5000000)])] []) [(1, p)] [(12, [(1, m)])] 1 1 7 ps [] 0 [] 0 in
  MReady s /\ exists s' h, begin_block_margin s [(PREC, 1, 10)] = Ok (s', [(12, 1, h)]) /\ all_mtps s' = [].
Proof.
  cbv zeta. split.
  - unfold MReady. split; [split; [exists 0; cbn; auto with zarith|constructor; [exists 0; cbn; auto with zarith|constructor]]|].
    assert (Hone : forall (P : Z -> Z -> mtp -> Prop),
              P 12 1 (mkMtp 0 1000 1000 0 0 0 1 1999 (2 * PREC) 0) ->
              forall addr id m0, find_mtp (mkMState (mkBank [(1, [(0, 5000000); (1, 5000000)])] []) [(1, mkMPool 1000000 2000000 1000 0 0 1999 0 0 0 0 PREC 1 10)]
                  [(12, [(1, mkMtp 0 1000 1000 0 0 0 1 1999 (2 * PREC) 0)])] 1 1 7
                  (mkMParams (2 * PREC) (105 * PREC / 100) 1 false 0 21 0 20 [1] [] false 100 true 0 0 1) [] 0 [] 0) addr id = Some m0 -> P addr id m0).
    { intros P HP addr id m0 Hf. unfold find_mtp, mtps_of in Hf. cbn [ms_mtps get] in Hf.
      destruct (Z.ltb_spec 12 addr); [discriminate Hf|]. destruct (Z.eqb_spec 12 addr) as [<-|]; [|discriminate Hf]. cbn [get] in Hf.
      destruct (Z.ltb_spec 1 id); [discriminate Hf|]. destruct (Z.eqb_spec 1 id) as [<-|]; [|discriminate Hf]. injection Hf as <-. exact HP. }
    split; [unfold stored_nonneg; exact (Hone (fun _ _ m0 => 0 <= m_cust_amt m0) ltac:(vm_compute; discriminate))|].
    split; [unfold stored_shape; refine (Hone (fun addr id m0 => id <> 0 /\ addr <> CLP_MODULE /\ shape m0) _); split; [discriminate|split; [vm_compute; discriminate|]];
            unfold shape, on_pool; split; [vm_compute; discriminate|left; split; reflexivity]|].
    split; [vm_compute; split; discriminate|]. split; [vm_compute; split; discriminate|].
    split; [exists 0; cbn; auto with zarith|]. split.
    + intros a p0 Hg. cbn [ms_pools get] in Hg. destruct (Z.ltb_spec 1 a); [discriminate Hg|]. destruct (Z.eqb_spec 1 a) as [<-|]; [|discriminate Hg].
      injection Hg as <-. vm_compute. repeat split; discriminate.
    + vm_compute. discriminate.
  - eexists _, _. split; vm_compute; reflexivity.
Qed.

(* ---- histories: margin transactions between the blocks. What C13_begin_block asks of the state at the start of a block is
   kept by MsgOpen, MsgClose and MsgAdminClose too (and by a refused transaction, which only pays its fee), together with
   the sums invariant and the module account's gap (C01): over any sequence of delivered margin transactions and blocks the
   premise is one on the first state. Asked along the run: nobody signs as the module account, and when a position is
   opened the id the counter hands out is free (ids come from the counter; Check/Margin.v evaluates it on observed states). *)
From Sif Require Import Proofs.MarginReady.

Theorem C13_close_keeps_ready : forall s signer id c' r,
  SumInv s -> MReady s -> close_msg s signer id = (c', Ok r) ->
  SumInv (c_s c') /\ MReady (c_s c') /\ gapN (c_s c') = gapN s /\ (forall a', a' <> ROWAN -> gapE (c_s c') a' = gapE s a').
Proof. exact close_ready. Qed.
Print Assumptions C13_close_keeps_ready.

Theorem C13_admin_close_keeps_ready : forall s adm addr id tf c' r,
  SumInv s -> MReady s -> admin_close_msg s adm addr id tf = (c', Ok r) ->
  adm = true /\ SumInv (c_s c') /\ MReady (c_s c') /\ gapN (c_s c') = gapN s /\ (forall a', a' <> ROWAN -> gapE (c_s c') a' = gapE s a').
Proof. exact admin_close_ready. Qed.
Print Assumptions C13_admin_close_keeps_ready.

Theorem C13_open_keeps_ready : forall s hl signer coll borrow amt lev c' u,
  SumInv s -> MReady s -> signer <> CLP_MODULE -> 0 <= ms_count s -> find_mtp s signer (ms_count s + 1) = None ->
  open_msg s hl signer coll borrow amt lev = (c', Ok u) ->
  SumInv (c_s c') /\ MReady (c_s c') /\ gapN (c_s c') = gapN s /\ (forall a', a' <> ROWAN -> gapE (c_s c') a' = gapE s a').
Proof. exact open_ready. Qed.
Print Assumptions C13_open_keeps_ready.

Theorem C13_history : forall es s s',
  SumInv s -> MReady s -> mrun_ok s es -> mrun s es = Some s' ->
  SumInv s' /\ MReady s' /\ gapN s' = gapN s /\ (forall a, a <> ROWAN -> gapE s' a = gapE s a).
Proof. exact margin_history. Qed.
Print Assumptions C13_history.

(* non-vacuity: one open position (owner 12); account 13 opens a second one, 12 closes its own, a block passes, the
   administrator closes the second one with the fund payment — the premises hold, the run ends without positions, and the
   module account's gap is what it was (4000000 natively, 2998001 in the pool's token) *)
Definition ex_hist_state : mstate :=
  let m := mkMtp 0 1000 1000 0 0 0 1 1999 (2 * PREC) 0 in
  let p := mkMPool 1000000 2000000 1000 0 0 1999 0 0 0 0 PREC 1 10 in
  let ps := mkMParams (2 * PREC) (105 * PREC / 100) 1 false 0 21 0 20 [1] [] false 100 true (PREC / 200) 1 200 in
  mkMState (mkBank [(1, [(0, 5000000); (1, 5000000)]); (13, [(0, 100000); (1, 100000)])] []) [(1, p)] [(12, [(1, m)])] 1 1 7 ps [] 0 [] 0.
Definition ex_hist : list mstep :=
  [SMsg 10 false (MOpen 13 0 1 5000 (2 * PREC)); SMsg 10 false (MClose 12 1); SBlock [(PREC, 1, 10)]; SMsg 10 false (MAdminClose true 20 13 2 true)].

Example C13_history_example :
  SumInv ex_hist_state /\ MReady ex_hist_state /\ mrun_ok ex_hist_state ex_hist /\
  (match mrun ex_hist_state ex_hist with Some s' => Some (all_mtps s', ms_open s', gapN s', gapE s' 1) | None => None end) = Some ([], 0, 4000000, 2998001) /\
  (gapN ex_hist_state, gapE ex_hist_state 1) = (4000000, 2998001).
Proof.
  assert (Hone : forall (P : Z -> Z -> mtp -> Prop),
            P 12 1 (mkMtp 0 1000 1000 0 0 0 1 1999 (2 * PREC) 0) ->
            forall addr id m0, find_mtp ex_hist_state addr id = Some m0 -> P addr id m0).
  { intros P HP addr id m0 Hf. unfold find_mtp, mtps_of, ex_hist_state in Hf. cbn [ms_mtps get] in Hf.
    destruct (Z.ltb_spec 12 addr); [discriminate Hf|]. destruct (Z.eqb_spec 12 addr) as [<-|]; [|discriminate Hf]. cbn [get] in Hf.
    destruct (Z.ltb_spec 1 id); [discriminate Hf|]. destruct (Z.eqb_spec 1 id) as [<-|]; [|discriminate Hf]. injection Hf as <-. exact HP. }
  assert (Hpool : forall (P : Z -> mpool -> Prop), P 1 (mkMPool 1000000 2000000 1000 0 0 1999 0 0 0 0 PREC 1 10) ->
            forall a p0, get a (ms_pools ex_hist_state) = Some p0 -> P a p0).
  { intros P HP a p0 Hg. unfold ex_hist_state in Hg. cbn [ms_pools get] in Hg. destruct (Z.ltb_spec 1 a); [discriminate Hg|].
    destruct (Z.eqb_spec 1 a) as [<-|]; [|discriminate Hg]. injection Hg as <-. exact HP. }
  split.
  { split; [|vm_compute; reflexivity]. intros a p0 Hg Hr. revert a p0 Hg Hr. refine (Hpool (fun a p0 => a <> ROWAN -> pool_agrees ex_hist_state a p0) _).
    intros _. vm_compute. repeat split; reflexivity. }
  split.
  { unfold MReady. split; [split; [exists 0; cbn; auto with zarith|constructor; [exists 0; cbn; auto with zarith|constructor]]|].
    split; [unfold stored_nonneg; exact (Hone (fun _ _ m0 => 0 <= m_cust_amt m0) ltac:(vm_compute; discriminate))|].
    split; [unfold stored_shape; refine (Hone (fun addr id m0 => id <> 0 /\ addr <> CLP_MODULE /\ shape m0) _); split; [discriminate|split; [vm_compute; discriminate|]];
            unfold shape, on_pool; split; [vm_compute; discriminate|left; split; reflexivity]|].
    split; [vm_compute; split; discriminate|]. split; [vm_compute; split; discriminate|].
    split; [exists 0; cbn; auto with zarith|]. split.
    + refine (Hpool (fun a p0 => a <> ROWAN /\ 0 <= q_nb p0 /\ 0 <= q_eb p0 /\ q_eb p0 + q_ec p0 <= bal (ms_bank ex_hist_state) CLP_MODULE a) _).
      vm_compute. repeat split; discriminate.
    + vm_compute. discriminate. }
  split.
  { cbn [mrun_ok ex_hist mstep_ok signer_of_margin]. split; [split; [vm_compute; discriminate|split; [vm_compute; discriminate|vm_compute; reflexivity]]|].
    vm_compute. repeat split; discriminate. }
  split; vm_compute; reflexivity.
Qed.
