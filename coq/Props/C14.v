(* C14 — genesis export/import is lossless for everything the genesis format carries.
   Partial: theorems for x/clp (pools, providers with unlock requests, reward buckets, reward and distribution
   periods, liquidity-protection and ratio-shifting state), x/dispensation (records of the three statuses,
   distributions, claims) and x/margin (parameters, positions, counters); the other five modules are covered by the
   real export -> import -> export comparison of the check only. *)
From Coq Require Import ZArith List Bool.
From RecordUpdate Require Import RecordUpdate.
From Sif Require Import Base.Outcome Base.Store Base.Bank Model.ClpTypes Model.ClpPolicy Model.Dispensation Model.Margin Model.Genesis
  Proofs.DispProofs Proofs.GenesisProofs.
Import ListNotations.
Local Open Scope Z_scope.

(* Importing the exported clp genesis reproduces every carried store exactly — hence every query over pools,
   providers, buckets, periods and policy parameters answers the same on the new chain — provided the stores are
   in key order (what the KV store guarantees), no provider list is present but empty, and every provider
   record has a non-zero LastUpdatedBlock (SetLiquidityProvider re-bases 0 to the import height; records written
   by a running chain carry the height >= 1 of their last update). *)
Theorem C14_clp_import_export : forall h c, CarriedWF c -> import_clp h (export_clp c) = c.
Proof. exact import_export_clp. Qed.
Print Assumptions C14_clp_import_export.

(* exporting the new chain again yields the identical document *)
Theorem C14_clp_reexport : forall h c, CarriedWF c -> export_clp (import_clp h (export_clp c)) = export_clp c.
Proof. exact reexport_clp. Qed.
Print Assumptions C14_clp_reexport.

(* the same for dispensation: records are filed back under their status prefix, in key order *)
Theorem C14_disp_import_export : forall d, DispWF d -> import_disp (export_disp d) = d.
Proof. exact import_export_disp. Qed.
Print Assumptions C14_disp_import_export.
Theorem C14_disp_reexport : forall d, DispWF d -> export_disp (import_disp (export_disp d)) = export_disp d.
Proof. exact reexport_disp. Qed.
Print Assumptions C14_disp_reexport.

(* x/margin: the document carries the parameters and the open positions. Importing it gives back the parameters, the
   positions and the open counter exactly; the id counter comes back as the highest id among the open positions, which is
   at least every stored id (a new position cannot take the id of an imported one) and at most the old counter. Premises:
   stores in key order without empty inner lists, ids from 1, the open counter counts the stored positions (C13), every
   id at most the id counter. *)
Theorem C14_margin_import_export : forall c, MarginWF c ->
  let c' := import_margin (export_margin c) in
  mc_params c' = mc_params c /\ mc_mtps c' = mc_mtps c /\ mc_open c' = mc_open c /\
  (forall e, In e (flatten (mc_mtps c')) -> fst (snd e) <= mc_count c') /\ 0 <= mc_count c' /\ (0 <= mc_count c -> mc_count c' <= mc_count c).
Proof. exact import_export_margin. Qed.
Print Assumptions C14_margin_import_export.
Theorem C14_margin_reexport : forall c, MarginWF c -> export_margin (import_margin (export_margin c)) = export_margin c.
Proof. exact reexport_margin. Qed.
Print Assumptions C14_margin_reexport.
(* what the margin document does not carry (findings F-19 and F-20): the lifetime counter when the positions opened last
   were closed before the export, and the whitelist *)
Theorem C14_margin_lifetime_counter_refuted : exists c, MarginWF c /\ mc_count (import_margin (export_margin c)) <> mc_count c.
Proof. exact margin_lifetime_counter_refuted. Qed.
Print Assumptions C14_margin_lifetime_counter_refuted.
Theorem C14_margin_whitelist_refuted : exists c, MarginWF c /\ mc_whitelist (import_margin (export_margin c)) <> mc_whitelist c.
Proof. exact margin_whitelist_refuted. Qed.
Print Assumptions C14_margin_whitelist_refuted.

(* the key order assumed of the dispensation tables is kept by every table update of the model *)
Theorem C14_table_order_kept : forall (t : table drec) k v,
  tasc t -> tasc (rset k v t) /\ tasc (rdel k t).
Proof. intros t k v H. split; [apply tasc_rset | apply tasc_rdel]; exact H. Qed.
Print Assumptions C14_table_order_kept.

(* the re-basing of a zero LastUpdatedBlock is the one place where import is not the identity *)
Example C14_lp_rebase :
  let c := mkCC [] [(1, [(10, mkLp 5 [] 0)])] [] [] [] (mkLPS 0 1 false 0) (mkPM 0 0 1 0 0 0 0 0 0) in
  cc_lps (import_clp 7 (export_clp c)) = [(1, [(10, mkLp 5 [] 7)])].
Proof. reflexivity. Qed.
Example C14_nonvacuous :
  let c := mkCC [(1, mkPool 10 20 30 0 0 0 0 0 0); (2, mkPool 1 2 3 0 0 0 0 0 0)]
                [(1, [(10, mkLp 5 [(3, 2)] 4); (11, mkLp 6 [] 2)]); (2, [(10, mkLp 1 [] 9)])]
                [(0, 7); (2, 9)] [] [] (mkLPS 100 10 true 50) (mkPM 0 0 1 0 0 0 0 0 0) in
  CarriedWF c /\ import_clp 12 (export_clp c) = c.
Proof.
  cbv zeta. split; [|reflexivity]. constructor; cbn.
  - exists 0. cbn. repeat split; reflexivity.
  - exists (-1). cbn. repeat split; reflexivity.
  - exists 0. cbn. repeat split; reflexivity.
  - assert (W : forall m : store lprov, (exists lo, sorted_from lo m) -> wf m) by (intros m H; exact H).
    constructor; [|constructor; [|constructor]]; cbn [snd]; (split; [discriminate|]); (split; [apply W; exists 0; cbn; repeat split; reflexivity|]).
    + intros e [<-|[<-|[]]]; discriminate.
    + intros e [<-|[]]; discriminate.
Qed.
