(* C15 — liquidity removal requires a matured, unexpired, unconsumed unlock request. *)
From Coq Require Import ZArith List Bool.
From Sif Require Import Base.Outcome Base.Store Base.Bank Model.ClpCalc Model.ClpTypes Model.ClpState Model.ClpMsgs
  Proofs.ClpInv Proofs.ClpUnits Proofs.UnlockProofs.
Import ListNotations.
Local Open Scope Z_scope.

(* The open requests of a provider at a given moment are its stored records minus the expired ones
   (height >= request + L + cancel) and the empty ones: *)
Theorem C15_open_requests : forall h lock cancel us r,
  In r (prune_unlocks h lock cancel us) <-> In r us /\ h < fst r + lock + cancel /\ snd r <> 0.
Proof. exact prune_unlocks_spec. Qed.
Print Assumptions C15_open_requests.

(* both removal messages succeed only if the consumption of the burned units from those open requests succeeds *)
Theorem C15_removal_consumes_requests : forall s sg a u s',
  remove_liquidity_units s sg a u = Ok s' ->
  exists l0 lft caller stored,
    find_lp s a sg = Some l0 /\ 0 <= lp_units l0 - lft /\
    use_unlocked false (cs_height s) (cp_lock (cs_params s))
      (prune_unlocks (cs_height s) (cp_lock (cs_params s)) (cp_cancel (cs_params s)) (lp_unlocks l0))
      (lp_units l0 - lft) = Ok (caller, stored) /\
    (lft <> 0 -> exists l', find_lp s' a sg = Some l' /\ lp_units l' = lft /\ lp_unlocks l' = caller).
Proof. exact remove_units_requires. Qed.
Print Assumptions C15_removal_consumes_requests.

Theorem C15_removal_bp_consumes_requests : forall s sg a w asym s',
  remove_liquidity s sg a w asym = Ok s' ->
  exists l0 lft caller stored,
    find_lp s a sg = Some l0 /\ 0 <= lp_units l0 - lft /\
    use_unlocked false (cs_height s) (cp_lock (cs_params s))
      (prune_unlocks (cs_height s) (cp_lock (cs_params s)) (cp_cancel (cs_params s)) (lp_unlocks l0))
      (lp_units l0 - lft) = Ok (caller, stored) /\
    (lft <> 0 -> exists l', find_lp s' a sg = Some l' /\ lp_units l' = lft /\ lp_unlocks l' = caller).
Proof. exact remove_requires. Qed.
Print Assumptions C15_removal_bp_consumes_requests.

(* ... and that consumption, for any list of requests and any amount: takes units only from requests with
   request height + L <= current height (any request for a cancel), never more than a request holds
   (so no unit is consumed twice: what is taken is gone from the record), in total exactly the burned
   amount when L <> 0, and leaves exactly the remainder stored *)
Theorem C15_matured_once : forall any h lock us units caller stored,
  nonneg_units us -> 0 <= units ->
  use_unlocked any h lock us units = Ok (caller, stored) ->
  usum stored = usum caller /\ nonneg_units caller /\
  usum us - usum caller <= units /\
  (lock <> 0 -> usum us - usum caller = units) /\
  Forall2 (fun r r' => snd r' <= snd r /\ (snd r' < snd r -> any || matured h lock r = true)) us caller.
Proof. exact use_unlocked_spec. Qed.
Print Assumptions C15_matured_once.

(* with L = 0 no request is needed *)
Theorem C15_L0 : forall any h us units, exists c st, use_unlocked any h 0 us units = Ok (c, st).
Proof. exact use_unlocked_L0. Qed.
Print Assumptions C15_L0.

(* outstanding requests never exceed the provider's units when a request is made *)
Theorem C15_request_bound : forall s sg a u s',
  unlock s sg a u = Ok s' ->
  exists l0 l', find_lp s a sg = Some l0 /\ find_lp s' a sg = Some l' /\
    let us0 := prune_unlocks (cs_height s) (cp_lock (cs_params s)) (cp_cancel (cs_params s)) (lp_unlocks l0) in
    fold_left (fun acc r => acc + snd r) us0 0 + u <= lp_units l0 /\
    lp_unlocks l' = us0 ++ [(cs_height s, u)] /\ lp_units l' = lp_units l0.
Proof. exact unlock_spec. Qed.
Print Assumptions C15_request_bound.

Example C15_example :
  use_unlocked false 10 5 [(2, 30); (5, 40); (7, 50)] 60 = Ok ([(2, 0); (5, 10); (7, 50)], [(5, 10); (7, 50)]) /\
  use_unlocked false 10 5 [(2, 30); (7, 50)] 60 = Err 1 /\
  nonneg_units [(2, 30); (5, 40); (7, 50)].
Proof. repeat split; try (vm_compute; reflexivity). repeat constructor; cbn; discriminate. Qed.
