(* C15 — liquidity removal requires a matured, unexpired, unconsumed unlock request. *)
From Coq Require Import ZArith List Bool Lia.
From Sif Require Import Base.Outcome Base.Store Base.Bank Model.ClpCalc Model.ClpTypes Model.ClpState Model.ClpMsgs
  Proofs.ClpInv Proofs.ClpUnits Proofs.UnlockProofs Proofs.UnlockHist.
Import ListNotations.
Local Open Scope Z_scope.

(* The open requests of a provider at a given moment are its stored records minus the expired ones
   (height >= request + L + cancel) and the empty ones: *)
Theorem C15_open_requests : forall h lock cancel us r,
  In r (prune_unlocks h lock cancel us) <-> In r us /\ h < fst r + lock + cancel /\ snd r <> 0.
Proof. exact prune_unlocks_spec. Qed.
Print Assumptions C15_open_requests.

(* both removal messages succeed only if the consumption of the burned units from those open requests succeeds *)
Theorem C15_removal_consumes_requests : forall s sg a u s',
  remove_liquidity_units s sg a u = Ok s' ->
  exists l0 lft caller stored,
    find_lp s a sg = Some l0 /\ 0 <= lp_units l0 - lft /\
    use_unlocked false (cs_height s) (cp_lock (cs_params s))
      (prune_unlocks (cs_height s) (cp_lock (cs_params s)) (cp_cancel (cs_params s)) (lp_unlocks l0))
      (lp_units l0 - lft) = Ok (caller, stored) /\
    (lft <> 0 -> exists l', find_lp s' a sg = Some l' /\ lp_units l' = lft /\ lp_unlocks l' = caller).
Proof. exact remove_units_requires. Qed.
Print Assumptions C15_removal_consumes_requests.

Theorem C15_removal_bp_consumes_requests : forall s sg a w asym s',
  remove_liquidity s sg a w asym = Ok s' ->
  exists l0 lft caller stored,
    find_lp s a sg = Some l0 /\ 0 <= lp_units l0 - lft /\
    use_unlocked false (cs_height s) (cp_lock (cs_params s))
      (prune_unlocks (cs_height s) (cp_lock (cs_params s)) (cp_cancel (cs_params s)) (lp_unlocks l0))
      (lp_units l0 - lft) = Ok (caller, stored) /\
    (lft <> 0 -> exists l', find_lp s' a sg = Some l' /\ lp_units l' = lft /\ lp_unlocks l' = caller).
Proof. exact remove_requires. Qed.
Print Assumptions C15_removal_bp_consumes_requests.

(* ... and that consumption, for any list of requests and any amount: takes units only from requests with
   request height + L <= current height (any request for a cancel), never more than a request holds
   (so no unit is consumed twice: what is taken is gone from the record), in total exactly the burned
   amount when L <> 0, and leaves exactly the remainder stored *)
Theorem C15_matured_once : forall any h lock us units caller stored,
  nonneg_units us -> 0 <= units ->
  use_unlocked any h lock us units = Ok (caller, stored) ->
  usum stored = usum caller /\ nonneg_units caller /\
  usum us - usum caller <= units /\
  (lock <> 0 -> usum us - usum caller = units) /\
  Forall2 (fun r r' => snd r' <= snd r /\ (snd r' < snd r -> any || matured h lock r = true)) us caller.
Proof. exact use_unlocked_spec. Qed.
Print Assumptions C15_matured_once.

(* with L = 0 no request is needed *)
Theorem C15_L0 : forall any h us units, exists c st, use_unlocked any h 0 us units = Ok (c, st).
Proof. exact use_unlocked_L0. Qed.
Print Assumptions C15_L0.

(* outstanding requests never exceed the provider's units when a request is made *)
Theorem C15_request_bound : forall s sg a u s',
  unlock s sg a u = Ok s' ->
  exists l0 l', find_lp s a sg = Some l0 /\ find_lp s' a sg = Some l' /\
    let us0 := prune_unlocks (cs_height s) (cp_lock (cs_params s)) (cp_cancel (cs_params s)) (lp_unlocks l0) in
    fold_left (fun acc r => acc + snd r) us0 0 + u <= lp_units l0 /\
    lp_unlocks l' = us0 ++ [(cs_height s, u)] /\ lp_units l' = lp_units l0.
Proof. exact unlock_spec. Qed.
Print Assumptions C15_request_bound.

(* ---- over histories: whatever transactions (accepted or rejected), blocks, administrator changes of the lock / cancel
   periods (through 0 and back) and growth of providers' units (re-invested rewards) happen, in every state reached every
   provider's outstanding requests are non-negative, were made at heights up to the current one, and add up to at most the
   provider's units. Premises: the amounts of the messages are unsigned (they are sdk.Uint in the code); the start state
   satisfies the invariant (the empty chain does: C15_initial). ---- *)
Theorem C15_history : forall steps s, CInv s -> Forall step_ok steps -> CInv (fold_left hstep steps s).
Proof. exact history_CInv. Qed.
Print Assumptions C15_history.
Theorem C15_outstanding_le_units : forall steps s a addr l,
  CInv s -> Forall step_ok steps -> find_lp (fold_left hstep steps s) a addr = Some l ->
  0 <= usum (lp_unlocks l) <= lp_units l /\ nonneg_units (lp_unlocks l).
Proof. exact history_outstanding_le_units. Qed.
Print Assumptions C15_outstanding_le_units.
Theorem C15_initial : forall s, cs_lps s = [] -> cs_pools s = [] -> CInv s.
Proof. exact CInv_initial. Qed.
Print Assumptions C15_initial.

(* a history that requests, waits, lets the administrator set the lock period to 0 and back, and removes *)
Example C15_history_example :
  let s := mkClp (mkBank [(10, [(0, 9000000000000000000000); (1, 9000000000000000000000)]);
                          (11, [(0, 9000000000000000000000); (1, 9000000000000000000000)])] [])
        [] [] [] 0 [] [] 5 (mkCP 0 3000000000000000 [] 2 10 [(0, 7); (1, 7)] [10] 0 false [] 0) in
  let steps := [HTx 1000 (MCreatePool 10 1 5000000000000000000000 7000000000000000000000);
                HTx 1000 (MAddLiquidity 11 1 3000000000000000000 4200000000000000000);
                HTx 1000 (MUnlock 11 1 2000000000000000000); HNextBlock; HNextBlock;
                HSetParams (mkCP 0 3000000000000000 [] 0 10 [(0, 7); (1, 7)] [10] 0 false [] 0);
                HTx 1000 (MRemoveLiquidityUnits 11 1 1000000000000000000);
                HSetParams (mkCP 0 3000000000000000 [] 2 10 [(0, 7); (1, 7)] [10] 0 false [] 0);
                HTx 1000 (MRemoveLiquidityUnits 11 1 500000000000000000)] in
  CInv s /\ Forall step_ok steps /\
  option_map (fun l => (lp_units l, usum (lp_unlocks l))) (find_lp (fold_left hstep steps s) 1 11) = Some (1500000000000000000, 500000000000000000).
Proof.
  cbv zeta. split; [apply CInv_initial; reflexivity|]. split; [repeat constructor; cbn; lia|]. vm_compute. reflexivity.
Qed.

Example C15_example :
  use_unlocked false 10 5 [(2, 30); (5, 40); (7, 50)] 60 = Ok ([(2, 0); (5, 10); (7, 50)], [(5, 10); (7, 50)]) /\
  use_unlocked false 10 5 [(2, 30); (7, 50)] 60 = Err 1 /\
  nonneg_units [(2, 30); (5, 40); (7, 50)].
Proof. repeat split; try (vm_compute; reflexivity). repeat constructor; cbn; discriminate. Qed.
