(* C16 — the relayer translates bridge events faithfully in both directions. *)
From Coq Require Import ZArith List Bool.
From Sif Require Import Model.Relayer Proofs.RelayerProofs.
Import ListNotations.
Local Open Scope Z_scope.

(* a burn symbol is translated iff it starts with the pegged prefix, to exactly the rest *)
Theorem C16_burn_symbol : forall v s, burn_symbol v = Some s <-> v = PREFIX_C :: s.
Proof. exact burn_symbol_spec. Qed.
Print Assumptions C16_burn_symbol.

(* Sifchain event -> message for Ethereum, soundness: every field of a prepared message is the parsed value of an
   attribute of the event with the right key (sender, sequence, Ethereum receiver, amount as given; the symbol
   mapped through the table for locks, with exactly the leading prefix removed for burns): nothing is invented,
   no required attribute can be missing *)
Theorem C16_sif_event_sound : forall burn t attrs m,
  burn_lock_to_msg burn t attrs = Some m ->
  In (1, cm_sender m) attrs /\
  (exists v n, In (2, v) attrs /\ parse_dec v = Some n /\ cm_sequence m = Some n) /\
  (exists v, In (3, v) attrs /\ parse_address v = Some (cm_receiver m)) /\
  (exists v, In (4, v) attrs /\ (if burn then v = PREFIX_C :: cm_symbol m else cm_symbol m = sif_to_eth t v)) /\
  (exists v n, In (5, v) attrs /\ parse_dec v = Some n /\ cm_amount m = Some n).
Proof. exact burn_lock_sound. Qed.
Print Assumptions C16_sif_event_sound.

(* ... and completeness: an event is translated iff all five attributes occur and every attribute value is
   acceptable (numbers parse, the receiver is a 20-byte hex address, a burn symbol has the prefix) - a condition
   that does not depend on the order of the attributes *)
Theorem C16_sif_event_accepts_iff : forall burn t attrs,
  (exists m, burn_lock_to_msg burn t attrs = Some m) <->
  forallb (attr_ok burn) attrs = true /\ forallb (fun k => has_key k attrs) [1; 2; 3; 4; 5] = true.
Proof. exact burn_lock_accepts_iff. Qed.
Print Assumptions C16_sif_event_accepts_iff.

(* Ethereum event -> claim: sender, token contract, amount and claim type are copied, the symbol is lower-cased
   for locks and mapped through the table for burns, chain id and nonce are the event's for values below 2^63;
   events with an invalid recipient are rejected *)
Theorem C16_eth_event_faithful : forall t e c,
  event_to_claim t e = Some c ->
  ev_recipient_valid e = true /\
  cl_sender c = ev_from e /\ cl_token c = ev_token e /\ cl_amount c = ev_value e /\ cl_burn c = ev_burn e /\
  cl_symbol c = (if ev_burn e then eth_to_sif t (ev_symbol e) else to_lower (ev_symbol e)) /\
  (0 <= ev_chain e < 2 ^ 63 -> cl_chain c = ev_chain e) /\ (0 <= ev_nonce e < 2 ^ 63 -> cl_nonce c = ev_nonce e).
Proof. exact event_to_claim_faithful. Qed.
Print Assumptions C16_eth_event_faithful.

(* two events of one Ethereum chain with different (nonce, sender) never share a claim identity, for any
   injective decimal printer and any injective 42-character address rendering (strconv.FormatInt and
   common.Address.Hex: assumptions about the Go library, stated as hypotheses) *)
Theorem C16_identity_injective : forall (fmt : Z -> str) (hex : list Z -> str),
  (forall a b, fmt a = fmt b -> a = b) -> (forall a b, hex a = hex b -> a = b) -> (forall a, length (hex a) = 42%nat) ->
  forall c1 c2, cl_chain c1 = cl_chain c2 -> oracle_id fmt hex c1 = oracle_id fmt hex c2 ->
  cl_nonce c1 = cl_nonce c2 /\ cl_sender c1 = cl_sender c2.
Proof. intros fmt hex H1 H2 H3. exact (oracle_id_injective fmt hex H1 H2 H3). Qed.
Print Assumptions C16_identity_injective.

(* across chain ids the undelimited concatenation does collide (finding F-8): chain 1 / nonce 23 and chain 12 / nonce 3 *)
Theorem C16_identity_collision_refuted : forall hex s,
  oracle_id dec2 hex (mkCl 1 23 s [] [] 0 false) = oracle_id dec2 hex (mkCl 12 3 s [] [] 0 false).
Proof. exact oracle_id_collision. Qed.
Print Assumptions C16_identity_collision_refuted.

(* what the fixed parser excludes (finding F-10) and a translated event *)
Example C16_f10_rejected :
  burn_symbol [120; 99; 121] = None /\                                    (* "xcy" *)
  burn_lock_to_msg true [] [(1, [115]); (1, [115]); (3, [48;120;54;50;55;51;48;54;48;57;48;97;98;97;66;51;65;54;101;49;52;48;48;101;57;51;52;53;98;67;54;48;99;55;56;97;56;66;69;102;53;55]); (4, [99;101;116;104]); (5, [49])] = None.
Proof. split; reflexivity. Qed.
Example C16_nonvacuous :
  burn_lock_to_msg true [] [(5, [49;48]); (4, [99;101;116;104]); (0, [120]); (1, [115;105;102]); (2, [55]);
     (3, [48;120;54;50;55;51;48;54;48;57;48;97;98;97;66;51;65;54;101;49;52;48;48;101;57;51;52;53;98;67;54;48;99;55;56;97;56;66;69;102;53;55])]
  = Some (mkCM [115;105;102] (Some 7) [98;115;6;9;10;186;179;166;225;64;14;147;69;188;96;199;138;139;239;87] [101;116;104] (Some 10)).
Proof. vm_compute. reflexivity. Qed.
