(* C17 — the relayer scans contiguously after 50 confirmations and resumes without gaps. *)
From Coq Require Import ZArith List Bool String.
From Sif Require Import Model.RelayerLoop Proofs.RelayerLoopProofs Gen.Consts.
Import ListNotations.
Local Open Scope Z_scope.

(* for every chain (events per block) and every input sequence: headers in any order with gaps, repeats and older
   headers, failing log queries, kills between any two externally visible actions followed by a restart *)

(* only events at least 50 blocks behind the newest header seen are ever submitted, and only events of the chain *)
Theorem C17_confirmations : forall ev is b e,
  In (b, e) (r_submitted (run ev init is)) -> b + TRAILING <= r_maxhead (run ev init is) /\ In e (ev b).
Proof. exact confirmations. Qed.
Print Assumptions C17_confirmations.

(* no gaps: in every reachable state, every event of every block from the start of the scan up to the persisted
   cursor has been handed to submission — whatever was killed in between *)
Theorem C17_no_gap : forall ev is,
  let s := run ev init is in covered ev (r_submitted s) (r_lo s) (r_persisted s).
Proof. exact no_gap. Qed.
Print Assumptions C17_no_gap.

(* the cursor is written only after the range it closes has been handled: either the claims of that range were
   handed over just before (pc Handed), or the range had no burn / lock event *)
Theorem C17_persist_only_after : forall ev s i, Inv ev s ->
  r_persisted (step ev s i) <> r_persisted s ->
  (exists to, r_pc s = Handed to /\ i = Tick /\ r_persisted (step ev s i) = to + 1) \/
  (exists n, i = Head n true /\ r_pc s = Idle /\ r_persisted (step ev s i) = n - TRAILING + 1 /\
             events_in ev (if r_cursor s =? 0 then n - TRAILING else r_cursor s) (n - TRAILING) = []).
Proof. exact persist_only_after. Qed.
Print Assumptions C17_persist_only_after.

(* a kill loses nothing that was submitted and resumes, idle, exactly at the persisted cursor *)
Theorem C17_kill_resumes : forall ev s, let s' := step ev s Kill in
  r_pc s' = Idle /\ r_cursor s' = r_persisted s /\ r_persisted s' = r_persisted s /\ r_submitted s' = r_submitted s.
Proof. exact kill_resumes. Qed.
Print Assumptions C17_kill_resumes.

(* ... from where one undisturbed iteration on a header at least 50 ahead submits every event of
   [cursor, n - 50] (again) and only then persists n - 49: every event at or after the persisted cursor is
   submitted at least once after the restart *)
Theorem C17_resume_covers : forall ev s n,
  r_pc s = Idle -> 0 < r_cursor s -> r_cursor s <= n - TRAILING ->
  let s' := run ev s [Head n true; Tick; Tick] in
  r_pc s' = Idle /\ r_persisted s' = n - TRAILING + 1 /\ r_cursor s' = n - TRAILING + 1 /\
  (forall b e, r_cursor s <= b <= n - TRAILING -> In e (ev b) -> In (b, e) (r_submitted s')) /\
  (forall x, In x (r_submitted s) -> In x (r_submitted s')).
Proof. exact resume_covers. Qed.
Print Assumptions C17_resume_covers.

(* an event the relayer cannot turn into a claim hides no other: the iteration hands every burn / lock event of the range
   to handleEthereumEvent, and the claims made of them hold every translatable one, whatever stands before it in its block
   or range, and nothing else *)
Theorem C17_untranslatable_hide_nothing : forall tr ev s n,
  r_pc s = Idle -> 0 < r_cursor s -> r_cursor s <= n - TRAILING ->
  let s' := run ev s [Head n true; Tick; Tick] in
  r_persisted s' = n - TRAILING + 1 /\
  (forall b e, r_cursor s <= b <= n - TRAILING -> In e (ev b) -> tr e = true -> In (b, e) (handle_events tr (r_submitted s'))) /\
  (forall b e, In (b, e) (handle_events tr (r_submitted s')) -> tr e = true /\ In (b, e) (r_submitted s')).
Proof. exact untranslatable_hide_nothing. Qed.
Print Assumptions C17_untranslatable_hide_nothing.
Example C17_untranslatable_example :
  let ev := fun b => if b =? 112 then [11200] else if b =? 113 then [11350; 11301] else if b =? 114 then [11400] else [] in
  let s := run ev init [Head 160 true; Head 165 true; Tick; Tick] in
  r_persisted s = 116 /\ handle_events (fun n => n mod 100 <? 50) (r_submitted s) = [(112, 11200); (113, 11301); (114, 11400)].
Proof. vm_compute. split; reflexivity. Qed.

Theorem C17_submitted_grows : forall ev s i x, In x (r_submitted s) -> In x (r_submitted (step ev s i)).
Proof. exact submitted_grows. Qed.
Print Assumptions C17_submitted_grows.

(* the source (regenerated on every run): the confirmation depth, and the order of the loop's externally visible
   actions — cursor read, log query, submission, sleep, cursor write *)
Theorem C17_trailing_const : gen_trailing_blocks = TRAILING.
Proof. reflexivity. Qed.
Print Assumptions C17_trailing_const.

Local Open Scope string_scope.
Theorem C17_loop_actions : gen_relayer_loop_actions = ["Sleep"; "Get"; "FilterLogs"; "handleEthereumEvent"; "Sleep"; "Put"].
Proof. reflexivity. Qed.
Print Assumptions C17_loop_actions.
(* ... and every LevelDB access of the relayer package: the Ethereum cursor is read and written by the Ethereum listener
   only (the Cosmos listener, which runs in the same process on the same database, keeps to its own key) *)
Theorem C17_cursor_owners : gen_relayer_db_accesses =
  [("cosmos.go", "CosmosSub.Start", "Get", "[]byte(cosmosLevelDBKey)"); ("cosmos.go", "CosmosSub.Start", "Put", "[]byte(cosmosLevelDBKey)");
   ("ethereum.go", "EthereumSub.Start", "Get", "[]byte(ethLevelDBKey)"); ("ethereum.go", "EthereumSub.Start", "Put", "[]byte(ethLevelDBKey)")].
Proof. reflexivity. Qed.
Print Assumptions C17_cursor_owners.
Local Close Scope string_scope.

(* a concrete run: events in blocks 105 and 108, a kill after the claims went out and before the cursor was written,
   a restart: both events are submitted again, the cursor ends at 114 *)
Example C17_example :
  let ev := fun b => if b =? 105 then [10500] else if b =? 108 then [10800] else [] in
  let s := run ev init [Head 150 true; Head 161 true; Tick; Kill; Head 163 true; Tick; Tick] in
  r_persisted s = 114 /\ r_submitted s = [(105, 10500); (108, 10800); (105, 10500); (108, 10800)] /\ r_maxhead s = 163.
Proof. vm_compute. repeat split; reflexivity. Qed.
