(* C18 — reward and distribution payouts are pro rata to provider units.
   Amount bounds are stated multiplied out over the integers; D = PREC = 10^18. *)
From Coq Require Import ZArith List Bool.
From Sif Require Import Base.Outcome Base.SdkMath Base.Store Base.Bank Model.ClpRewards Model.ClpTypes Model.ClpState Model.ClpHooks
  Proofs.PayoutProofs.
Import ListNotations.
Local Open Scope Z_scope.

(* LPPD and depth rewards, one provider: the unclamped amount r for a Dec amount pd to distribute satisfies
   | r - pd*u/(P*D) | <= 1 + pd/D^2      (one base unit plus 10^-18 of the distributed total) *)
Theorem C18_provider_share : forall pd P u,
  0 <= pd -> 0 < P -> 0 <= u ->
  let r := calc_provider_amount pd P u in
  0 <= r /\
  P * PREC * PREC * r <= u * pd * PREC + P * PREC * PREC + P * pd /\
  u * pd * PREC <= P * PREC * PREC * r + P * PREC * PREC + P * pd.
Proof. exact calc_provider_amount_bounds. Qed.
Print Assumptions C18_provider_share.

(* one pool: the pool gives up at most round(rate * native balance); what it gives up is exactly what its
   providers receive; only its providers receive; each receives a non-negative amount not above its
   unclamped share (the clamp only ever reduces the later providers) *)
Theorem C18_pool_run : forall depth rate P lps,
  0 <= depth -> 0 <= rate -> 0 < P -> Forall (fun l => 0 <= snd l) lps ->
  let pd := dec_mul rate depth in
  let '(out, tot) := collect_provider_distribution depth rate P lps in
  0 <= tot <= dec_round_int pd /\ asum out = tot /\ map fst out = map fst lps /\
  Forall2 (fun l o => 0 <= snd o <= calc_provider_amount pd P (snd l)) lps out.
Proof. exact collect_provider_distribution_spec. Qed.
Print Assumptions C18_pool_run.

(* depth rewards, split between pools: pool k with weight w = nb*multiplier out of total W gets d with
   | d - bd*w/W | <= 1 + bd/D (stated as 2*W*d <= 2*w*bd + W*bd and the matching lower bound) *)
Theorem C18_pool_split : forall mult nb td bd,
  0 <= mult -> 0 <= nb -> 0 < td -> 0 <= bd ->
  let w := dec_mul (dec_of_int nb) mult in
  let d := calc_pool_distribution mult nb td bd in
  0 <= d /\
  2 * td * d <= 2 * w * bd + td * bd /\
  2 * w * bd * PREC < 2 * td * PREC * (d + 1) + td * PREC * bd + 2 * td * bd.
Proof. exact calc_pool_distribution_bounds. Qed.
Print Assumptions C18_pool_split.

(* rewards bucket, one eligible provider with u of the eligible total T: amt within 1 + b/D of b*u/T, never above *)
Theorem C18_bucket_share : forall u T b,
  0 <= u -> 0 < T -> 0 <= b ->
  let amt := bucket_amount u T b in
  0 <= amt /\
  T * PREC * amt <= u * b * PREC + T * b /\
  u * b * PREC < T * PREC * (amt + 1) + T * b.
Proof. exact bucket_amount_bounds. Qed.
Print Assumptions C18_bucket_share.

(* accounts that are not on a distribution list receive nothing, and payouts are in the native token only *)
Theorem C18_outsiders_nothing : forall order b ds b' failed a d,
  transfer_generic b order ds = (b', failed) ->
  ~ In a order -> a <> CLP_MODULE -> bal b' a d = bal b a d.
Proof. exact transfer_generic_frame. Qed.
Print Assumptions C18_outsiders_nothing.

Theorem C18_native_only : forall order b ds b' failed a d,
  transfer_generic b order ds = (b', failed) -> d <> ROWAN -> bal b' a d = bal b a d.
Proof. exact transfer_generic_denoms. Qed.
Print Assumptions C18_native_only.

Example C18_example :
  collect_provider_distribution (dec_of_int 2000000000000001200) 1000000000000000 2000 [(10, 1000); (11, 1000)]
    = ([(10, 1000000000000001); (11, 1000000000000000)], 2000000000000001).
Proof. vm_compute. reflexivity. Qed.
