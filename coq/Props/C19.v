(* C19 — fee floors and validator-concentration rules hold however a message is wrapped. *)
From Coq Require Import ZArith List Bool String.
From Sif Require Import Base.Outcome Base.SdkMath Model.Ante Proofs.AnteProofs Gen.FeeTable.
Import ListNotations.
Local Open Scope Z_scope.

(* the cascade found in the source is the one modelled: the substrings, the two constants, the floor is the
   MAXIMUM over the messages, and both decorators walk into authz MsgExec *)
Theorem C19_table_matches_source :
  gen_fee_substrings = ["disptypes.MsgTypeCreateDistribution"; "disptypes.MsgTypeRunDistribution"; "banktypes.TypeMsgSend";
     "banktypes.TypeMsgMultiSend"; "createuserclaim"; "swap"; "removeliquidity"; "removeliquidityunits"; "addliquidity";
     "transfer"; "submitproposal"; "govtypes.TypeMsgSubmitProposal"]%string /\
  gen_fee_amounts = [FEE_HIGH; FEE_LOW] /\
  gen_fee_takes_maximum = 1 /\ gen_fee_walks_msgexec = 1 /\ gen_commission_walks_msgexec = 1 /\
  gen_commission_decs = [(5, 2); (66, 1)].
Proof. repeat split; reflexivity. Qed.
Print Assumptions C19_table_matches_source.

(* an accepted transaction pays at least the floor of every message it contains — directly or nested to any
   depth in MsgExec — hence the highest floor when kinds are mixed, in any order *)
Theorem C19_fee : forall sf fee ms top y,
  fee_ok sf fee ms = true -> is_dispensation_single ms = false ->
  In top ms -> inside y top -> 0 < msg_fee sf y -> msg_fee sf y <= fee.
Proof. exact fee_floor_all. Qed.
Print Assumptions C19_fee.

(* the floors of the message kinds named by the property *)
Example C19_floors :
  msg_fee 5 (Leaf "/cosmos.bank.v1beta1.MsgSend" SNone) = FEE_HIGH /\
  msg_fee 5 (Leaf "/sifnode.clp.v1.MsgAddLiquidity" SNone) = FEE_HIGH /\
  msg_fee 5 (Leaf "/sifnode.clp.v1.MsgRemoveLiquidityUnits" SNone) = FEE_HIGH /\
  msg_fee 5 (Leaf "/sifnode.clp.v1.MsgSwap" SNone) = FEE_HIGH /\
  msg_fee 5 (Leaf "/sifnode.dispensation.v1.MsgCreateUserClaim" SNone) = FEE_HIGH /\
  msg_fee 5 (Leaf "/ibc.applications.transfer.v1.MsgTransfer" SNone) = FEE_LOW /\
  msg_fee 5 (Leaf "/cosmos.gov.v1beta1.MsgSubmitProposal" SNone) = 5 /\
  msg_fee 5 (Exec [Leaf "/cosmos.gov.v1beta1.MsgSubmitProposal" SNone]) = 0 /\
  min_fee (5 * FEE_HIGH) [Exec [Exec [Leaf "/cosmos.gov.v1beta1.MsgSubmitProposal" SNone]]; Leaf "/cosmos.bank.v1beta1.MsgSend" SNone] = 5 * FEE_HIGH.
Proof. repeat split; vm_compute; reflexivity. Qed.

Theorem C19_commission : forall total ms top url r,
  staking_rules_ok total ms = true -> In top ms ->
  (inside (Leaf url (SCreateValidator r)) top \/ inside (Leaf url (SEditValidator (Some r))) top) ->
  MIN_COMMISSION <= r.
Proof. exact commission_all. Qed.
Print Assumptions C19_commission.

(* exact rational statement: (validator tokens + amount) / (bonded + unbonding + amount) < 66/1000; the
   18-digit Dec arithmetic of the decorator can only make the check stricter *)
Theorem C19_concentration : forall total ms top url vt amt,
  staking_rules_ok total ms = true -> In top ms ->
  inside (Leaf url (SDelegate true vt amt)) top -> 0 <= vt + amt -> 0 < total + amt ->
  (vt + amt) * 1000 < 66 * (total + amt).
Proof. exact delegation_all. Qed.
Print Assumptions C19_concentration.

Theorem C19_concentration_redelegate : forall total ms top url vt amt,
  staking_rules_ok total ms = true -> In top ms ->
  inside (Leaf url (SRedelegate true vt amt false)) top -> 0 <= vt + amt -> 0 < total ->
  (vt + amt) * 1000 < 66 * total.
Proof. exact redelegation_all. Qed.
Print Assumptions C19_concentration_redelegate.
