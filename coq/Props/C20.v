(* C20 — policy-driven issuance is bounded.  Only statements; proofs are in Proofs/. *)
From Coq Require Import ZArith List Bool String.
From Sif Require Import Base.Outcome Base.SdkMath Base.Store Base.Bank
  Model.ClpTypes Model.ClpRewards Model.ClpState Model.ClpHooks Model.Mint
  Proofs.MintProofs Proofs.RewardsProofs Gen.Consts Gen.MintSites.
Import ListNotations.
Local Open Scope Z_scope.

(* The ecosystem mint over any number of blocks, from any counter value below the cap:
   the counter is min(cap, c0 + n * per_block), it equals what was minted, everything minted went to
   the ecosystem pool, the module account keeps nothing. *)
Theorem C20_cap : forall n s, WF s ->
  WF (fst (run n s)) /\
  m_counter (fst (run n s)) = Z.min MAX_MINT (m_counter s + Z.of_nat n * MINT_PER_BLOCK) /\
  snd (run n s) = m_counter (fst (run n s)) - m_counter s /\
  m_eco (fst (run n s)) = m_eco s + snd (run n s) /\
  m_supply (fst (run n s)) = m_supply s + snd (run n s) /\
  m_module (fst (run n s)) = m_module s.
Proof. exact run_spec. Qed.
Print Assumptions C20_cap.

(* each block mints min(per_block, cap - counter): the full amount, then exactly the remainder *)
Theorem C20_block_amount : forall s, WF s ->
  snd (begin_block s) = Z.min MINT_PER_BLOCK (MAX_MINT - m_counter s) /\ 0 <= snd (begin_block s).
Proof. intros s H. pose proof (begin_block_spec s H) as (_ & H1 & H2 & _). auto. Qed.
Print Assumptions C20_block_amount.

Theorem C20_nothing_after_cap : forall s, m_counter s = MAX_MINT -> begin_block s = (s, 0).
Proof. exact capped_mints_nothing. Qed.
Print Assumptions C20_nothing_after_cap.

(* the constants and the wiring the model assumes are those of the source (regenerated every run) *)
Theorem C20_consts_match_source :
  gen_max_mint = 350000000000000000000000000 /\ gen_mint_per_block = 225000000000000000000 /\
  gen_dispensation_begin_blockers = 1.
Proof. repeat split; reflexivity. Qed.
Print Assumptions C20_consts_match_source.

(* the only code that creates coins / writes the mint controller *)
Theorem C20_mint_sites :
  gen_mint_sites =
    [("x/clp/keeper/rewards.go", "Keeper.DistributeDepthRewards");
     ("x/dispensation/abci.go", "BeginBlocker");
     ("x/ethbridge/keeper/keeper.go", "Keeper.ProcessSuccessfulClaim");
     ("x/ethbridge/keeper/keeper.go", "Keeper.ProcessSuccessfulClaim");
     ("x/ibctransfer/helpers/conversion_helper.go", "PrepareToSendConvertedCoins")]%string /\
  gen_controller_writers =
    [("x/dispensation/genesis.go", "InitGenesis");
     ("x/dispensation/keeper/migrations.go", "Migrator.MigrateToVer2");
     ("x/dispensation/keeper/mint_controller.go", "Keeper.AddMintAmount")]%string.
Proof. split; reflexivity. Qed.
Print Assumptions C20_mint_sites.

(* depth rewards: the per-pool split never exceeds the block distribution *)
Theorem C20_split_le : forall raws remaining,
  0 <= remaining -> Forall (fun r => 0 <= snd r) raws ->
  0 <= snd (collect_tuples raws remaining) <= remaining.
Proof. intros. apply collect_tuples_le; assumption. Qed.
Print Assumptions C20_split_le.

(* one block: what is created plus what is carried over is at most the carry-in plus alloc/len *)
Theorem C20_block_bound : forall s s' minted burned,
  Forall period_wf (cs_reward_periods s) -> pools_wf (cs_pools s) -> 0 <= cs_accu s ->
  rewards_run s = Ok (s', minted, burned) ->
  match find_period (cs_height s) (cs_reward_periods s) with
  | None => minted = 0 /\ cs_accu s' = cs_accu s
  | Some p => 0 <= minted /\ 0 <= cs_accu s' /\ cs_accu s' + minted <= cs_accu s + cur_of p
  end.
Proof. exact rewards_run_bound. Qed.
Print Assumptions C20_block_bound.

Theorem C20_nondistribution_block : forall s s' minted burned p,
  find_period (cs_height s) (cs_reward_periods s) = Some p -> rp_alloc p <> 0 ->
  is_distribution_block (cs_height s) (rp_start (norm_period p)) (rp_mod (norm_period p)) = Ok false ->
  rewards_run s = Ok (s', minted, burned) ->
  minted = 0 /\ burned = 0 /\ cs_accu s' = cs_accu s + cur_of p /\ cs_bank s' = cs_bank s /\ cs_pools s' = cs_pools s.
Proof. exact rewards_run_nondist. Qed.
Print Assumptions C20_nondistribution_block.

(* any number of blocks of one period, arbitrary state changes in between *)
Theorem C20_history_bound : forall p a0 n tot a,
  rhist p a0 n tot a -> 0 <= a /\ 0 <= tot /\ tot + a <= a0 + Z.of_nat n * cur_of p.
Proof. exact rhist_bound. Qed.
Print Assumptions C20_history_bound.

Theorem C20_period_bound : forall p n tot a,
  rhist p 0 n tot a -> 0 <= rp_alloc p -> 0 < period_len p -> Z.of_nat n <= period_len p ->
  tot <= rp_alloc p.
Proof. exact rhist_period_bound. Qed.
Print Assumptions C20_period_bound.

(* non-vacuity: the hypotheses are met by concrete states *)
Example C20_wf_inhabited :
  WF (Build_mstate true (MAX_MINT - 3 * MINT_PER_BLOCK - 7) 0 0 1000 false) /\
  snd (run 10 (Build_mstate true (MAX_MINT - 3 * MINT_PER_BLOCK - 7) 0 0 1000 false)) = 3 * MINT_PER_BLOCK + 7.
Proof. split; [unfold WF; cbn; split; [reflexivity|split; [split; discriminate|reflexivity]]|vm_compute; reflexivity]. Qed.
