// Package chain drives a real in-process SifchainApp through
// InitChain / BeginBlock / DeliverTx (signed tx, real ante chain) / EndBlock / Commit.
package chain

import (
	"encoding/json"
	"fmt"
	"math/big"
	"math/rand"
	"time"

	sifapp "github.com/Sifchain/sifnode/app"
	admintypes "github.com/Sifchain/sifnode/x/admin/types"
	clptypes "github.com/Sifchain/sifnode/x/clp/types"
	tokenregistrytypes "github.com/Sifchain/sifnode/x/tokenregistry/types"
	"github.com/cosmos/cosmos-sdk/crypto/keys/secp256k1"
	cryptotypes "github.com/cosmos/cosmos-sdk/crypto/types"
	"github.com/cosmos/cosmos-sdk/simapp/helpers"
	sdk "github.com/cosmos/cosmos-sdk/types"
	authtypes "github.com/cosmos/cosmos-sdk/x/auth/types"
	banktypes "github.com/cosmos/cosmos-sdk/x/bank/types"
	abci "github.com/tendermint/tendermint/abci/types"
	"github.com/tendermint/tendermint/libs/log"
	tmproto "github.com/tendermint/tendermint/proto/tendermint/types"
	dbm "github.com/tendermint/tm-db"
)

func init() {
	sifapp.SetConfig(false)
}

// Account is a key pair known to the harness.
type Account struct {
	Name string
	Priv cryptotypes.PrivKey
	Addr sdk.AccAddress
}

// NewAccount derives a deterministic account from a name.
func NewAccount(name string) Account {
	priv := secp256k1.GenPrivKeyFromSecret([]byte("sifverif/" + name))
	return Account{Name: name, Priv: priv, Addr: sdk.AccAddress(priv.PubKey().Address())}
}

// Genesis describes what the harness puts into the genesis document.
type Genesis struct {
	Balances  map[string]sdk.Coins // bech32 -> coins
	Admins    []*admintypes.AdminAccount
	Registry  []*tokenregistrytypes.RegistryEntry
	Transform func(app *sifapp.SifchainApp, gs sifapp.GenesisState) sifapp.GenesisState
}

// Chain wraps one application instance.
type Chain struct {
	App      *sifapp.SifchainApp
	DB       dbm.DB
	Height   int64
	Time     time.Time
	InBlock  bool
	Accounts map[string]Account
	// HookPanic holds the recovered value if Begin/EndBlock panicked
	HookPanic interface{}
	BlockStep time.Duration
	// recording of everything fed to the application, for re-execution (C09)
	GenesisBytes []byte
	T0           time.Time
	Ops          []Op
}

// Op is one ABCI call of a recorded run and what it returned.
type Op struct {
	Kind   int // 1 BeginBlock 2 DeliverTx 3 EndBlock 4 Commit
	Height int64
	Time   time.Time
	Tx     []byte
	Code   uint32
	Data   []byte
	GasW   int64
	GasU   int64
	Hash   []byte
	Panic  bool
	Log    string // DeliverTx log (diagnostics only, never compared)
}

// TxResult is the projected DeliverTx outcome.
type TxResult struct {
	Code      uint32
	Codespace string
	Log       string
	GasUsed   int64
	GasWanted int64
	Data      []byte
	Events    []abci.Event
}

func E(n int64) *big.Int { return new(big.Int).Exp(big.NewInt(10), big.NewInt(n), nil) }

// New creates an app on a fresh MemDB and runs InitChain + Commit, then opens block 2.
func New(g Genesis) *Chain {
	return NewOnDB(dbm.NewMemDB(), g)
}

func newApp(db dbm.DB) *sifapp.SifchainApp {
	enc := sifapp.MakeTestEncodingConfig()
	return sifapp.NewSifApp(log.NewNopLogger(), db, nil, true, map[int64]bool{}, sifapp.DefaultNodeHome, 0, enc, sifapp.EmptyAppOptions{})
}

func NewOnDB(db dbm.DB, g Genesis) *Chain {
	app := newApp(db)
	enc := sifapp.MakeTestEncodingConfig()
	gs := sifapp.NewDefaultGenesisState(enc.Marshaler)
	cdc := app.AppCodec()

	// auth + bank
	var authGen authtypes.GenesisState
	cdc.MustUnmarshalJSON(gs[authtypes.ModuleName], &authGen)
	var bankGen banktypes.GenesisState
	cdc.MustUnmarshalJSON(gs[banktypes.ModuleName], &bankGen)
	var accs []authtypes.GenesisAccount
	addrs := make([]string, 0, len(g.Balances))
	for a := range g.Balances {
		addrs = append(addrs, a)
	}
	sortStrings(addrs)
	for _, a := range addrs {
		addr, err := sdk.AccAddressFromBech32(a)
		if err != nil {
			panic(err)
		}
		accs = append(accs, authtypes.NewBaseAccount(addr, nil, 0, 0))
		bankGen.Balances = append(bankGen.Balances, banktypes.Balance{Address: a, Coins: g.Balances[a].Sort()})
	}
	packed, err := authtypes.PackAccounts(accs)
	if err != nil {
		panic(err)
	}
	authGen.Accounts = packed
	gs[authtypes.ModuleName] = cdc.MustMarshalJSON(&authGen)
	gs[banktypes.ModuleName] = cdc.MustMarshalJSON(&bankGen)

	if g.Admins != nil {
		ag := admintypes.GenesisState{AdminAccounts: g.Admins}
		gs[admintypes.ModuleName] = cdc.MustMarshalJSON(&ag)
	}
	if g.Registry != nil {
		rg := tokenregistrytypes.GenesisState{Registry: &tokenregistrytypes.Registry{Entries: g.Registry}}
		gs[tokenregistrytypes.ModuleName] = cdc.MustMarshalJSON(&rg)
	}
	if g.Transform != nil {
		gs = g.Transform(app, gs)
	}
	stateBytes, err := json.MarshalIndent(gs, "", " ")
	if err != nil {
		panic(err)
	}
	t0 := time.Unix(1700000000, 0).UTC()
	app.InitChain(abci.RequestInitChain{
		Time:            t0,
		Validators:      []abci.ValidatorUpdate{},
		ConsensusParams: consensusParams,
		AppStateBytes:   stateBytes,
	})
	app.Commit()
	c := &Chain{App: app, DB: db, Height: 1, Time: t0, Accounts: map[string]Account{}, BlockStep: 6 * time.Second, GenesisBytes: stateBytes, T0: t0}
	return c
}

// consensusParams are the test-helper defaults with the block gas limit lifted: how many transactions the harness packs
// into one block is not something any property speaks about, and a transaction cut off by the block gas meter is not a
// behaviour of the modules under study.
var consensusParams = func() *abci.ConsensusParams {
	p := *sifapp.DefaultConsensusParams
	b := *p.Block
	b.MaxGas = -1
	p.Block = &b
	return &p
}()

// Replay re-executes a recorded run on a fresh application instance and returns what each call returned.
func Replay(genesis []byte, t0 time.Time, ops []Op) []Op {
	return ReplayRestarting(genesis, t0, ops, 0)
}

// ReplayRestarting: as Replay, but after every restartEvery-th Commit (0 = never) the application instance is thrown away
// and a new one is opened on the same database — a node that restarts, or one that joins from a snapshot, must go on
// exactly as the node that has been running all along (nothing an instance remembers may matter).
func ReplayRestarting(genesis []byte, t0 time.Time, ops []Op, restartEvery int) []Op {
	db := dbm.NewMemDB()
	app := newApp(db)
	commits := 0
	app.InitChain(abci.RequestInitChain{Time: t0, Validators: []abci.ValidatorUpdate{}, ConsensusParams: consensusParams, AppStateBytes: genesis})
	app.Commit()
	out := make([]Op, len(ops))
	for i, o := range ops {
		r := o
		r.Code, r.Data, r.GasW, r.GasU, r.Hash, r.Panic = 0, nil, 0, 0, nil, false
		func() {
			defer func() {
				if rec := recover(); rec != nil {
					r.Panic = true
				}
			}()
			switch o.Kind {
			case 1:
				app.BeginBlock(abci.RequestBeginBlock{Header: tmproto.Header{Height: o.Height, Time: o.Time, ChainID: ""}})
			case 2:
				res := app.DeliverTx(abci.RequestDeliverTx{Tx: o.Tx})
				r.Code, r.Data, r.GasW, r.GasU, r.Log = res.Code, res.Data, res.GasWanted, res.GasUsed, res.Log
			case 3:
				app.EndBlock(abci.RequestEndBlock{Height: o.Height})
			case 4:
				r.Hash = app.Commit().Data
				commits++
				if restartEvery > 0 && commits%restartEvery == 0 {
					app = newApp(db)
				}
			}
		}()
		out[i] = r
	}
	return out
}

// Reopen builds a fresh application instance on the same DB (application restart from committed state).
func (c *Chain) Reopen() {
	if c.InBlock {
		panic("Reopen inside a block")
	}
	c.App = newApp(c.DB)
}

func sortStrings(s []string) {
	for i := 1; i < len(s); i++ {
		for j := i; j > 0 && s[j] < s[j-1]; j-- {
			s[j], s[j-1] = s[j-1], s[j]
		}
	}
}

func (c *Chain) header() tmproto.Header {
	return tmproto.Header{Height: c.Height, Time: c.Time, ChainID: ""}
}

// Ctx returns a context on the deliver state (inside a block) or on the last committed state.
func (c *Chain) Ctx() sdk.Context {
	if c.InBlock {
		return c.App.BaseApp.NewContext(false, c.header())
	}
	return c.App.BaseApp.NewContext(true, c.header())
}

// BeginBlock opens the next block; a panic inside a hook is recovered and recorded.
func (c *Chain) BeginBlock() (panicked bool) {
	if c.InBlock {
		panic("BeginBlock inside a block")
	}
	c.Height++
	c.Time = c.Time.Add(c.BlockStep)
	c.InBlock = true
	c.Ops = append(c.Ops, Op{Kind: 1, Height: c.Height, Time: c.Time})
	defer func() {
		if r := recover(); r != nil {
			c.HookPanic = r
			panicked = true
			c.Ops[len(c.Ops)-1].Panic = true
		}
	}()
	c.App.BeginBlock(abci.RequestBeginBlock{Header: c.header()})
	return false
}

func (c *Chain) EndBlock() (panicked bool) {
	c.Ops = append(c.Ops, Op{Kind: 3, Height: c.Height})
	defer func() {
		if r := recover(); r != nil {
			c.HookPanic = r
			panicked = true
			c.Ops[len(c.Ops)-1].Panic = true
		}
	}()
	c.App.EndBlock(abci.RequestEndBlock{Height: c.Height})
	return false
}

func (c *Chain) Commit() []byte {
	res := c.App.Commit()
	c.InBlock = false
	c.Ops = append(c.Ops, Op{Kind: 4, Height: c.Height, Hash: res.Data})
	return res.Data
}

// NextBlock = EndBlock, Commit, BeginBlock.
func (c *Chain) NextBlock() (panicked bool) {
	if c.InBlock {
		if c.EndBlock() {
			return true
		}
		c.Commit()
	}
	return c.BeginBlock()
}

// Deliver signs and delivers one transaction carrying msgs, signed by signers (first signer pays the fee).
func (c *Chain) Deliver(fee sdk.Coins, gas uint64, signers []Account, msgs ...sdk.Msg) TxResult {
	if !c.InBlock {
		panic("Deliver outside a block")
	}
	ctx := c.Ctx()
	accNums := make([]uint64, len(signers))
	seqs := make([]uint64, len(signers))
	privs := make([]cryptotypes.PrivKey, len(signers))
	for i, s := range signers {
		acc := c.App.AccountKeeper.GetAccount(ctx, s.Addr)
		if acc != nil {
			accNums[i] = acc.GetAccountNumber()
			seqs[i] = acc.GetSequence()
		}
		privs[i] = s.Priv
	}
	txCfg := sifapp.MakeTestEncodingConfig().TxConfig
	tx, err := helpers.GenTx(txCfg, msgs, fee, gas, "", accNums, seqs, privs...)
	if err != nil {
		panic(err)
	}
	bz, err := txCfg.TxEncoder()(tx)
	if err != nil {
		panic(err)
	}
	res := c.App.DeliverTx(abci.RequestDeliverTx{Tx: bz})
	c.Ops = append(c.Ops, Op{Kind: 2, Height: c.Height, Tx: bz, Code: res.Code, Data: res.Data, GasW: res.GasWanted, GasU: res.GasUsed})
	return TxResult{Code: res.Code, Codespace: res.Codespace, Log: res.Log, GasUsed: res.GasUsed, GasWanted: res.GasWanted, Data: res.Data, Events: res.Events}
}

// DefaultFee is large enough for every Sifchain fee floor except governance proposals.
func DefaultFee() sdk.Coins {
	return sdk.NewCoins(sdk.NewCoin("rowan", sdk.NewIntFromBigInt(E(18))))
}

// Tx delivers msgs signed by one account with the default fee.
func (c *Chain) Tx(signer Account, msgs ...sdk.Msg) TxResult {
	return c.Deliver(DefaultFee(), 5_000_000, []Account{signer}, msgs...)
}

func (c *Chain) Balance(addr sdk.AccAddress, denom string) sdk.Int {
	return c.App.BankKeeper.GetBalance(c.Ctx(), addr, denom).Amount
}

func (c *Chain) Supply(denom string) sdk.Int {
	return c.App.BankKeeper.GetSupply(c.Ctx(), denom).Amount
}

func (c *Chain) ModuleAddr(name string) sdk.AccAddress {
	return authtypes.NewModuleAddress(name)
}

// Rand helpers -------------------------------------------------------------

type Rng struct{ *rand.Rand }

func NewRng(seed int64) *Rng { return &Rng{rand.New(rand.NewSource(seed))} }

// LogUniform returns an integer roughly log-uniform in [1, 10^maxExp].
func (r *Rng) LogUniform(maxExp int) *big.Int {
	e := r.Intn(maxExp + 1)
	hi := E(int64(e))
	// mantissa in [1,10)
	m := new(big.Int).Rand(r.Rand, new(big.Int).Mul(hi, big.NewInt(9)))
	m.Add(m, hi)
	if r.Intn(8) == 0 {
		return hi
	}
	return m
}

func (r *Rng) Pick(n int) int { return r.Intn(n) }

func Fmt(format string, a ...interface{}) string { return fmt.Sprintf(format, a...) }

var _ = clptypes.ModuleName

// Export ends the current block (if any), commits and returns ExportAppStateAndValidators of the committed state.
func (c *Chain) Export() (appState []byte, height int64, err error) {
	if c.InBlock {
		c.EndBlock()
		c.Commit()
	}
	exp, err := c.App.ExportAppStateAndValidators(false, nil)
	if err != nil {
		return nil, 0, err
	}
	return exp.AppState, exp.Height, nil
}

// NewFromExport initialises a fresh application on an empty DB from an exported app state.
// A panic of InitChain is returned as an error.
func NewFromExport(appState []byte, height int64, t time.Time) (c *Chain, err error) {
	db := dbm.NewMemDB()
	app := newApp(db)
	defer func() {
		if r := recover(); r != nil {
			err = fmt.Errorf("InitChain panicked: %v", r)
		}
	}()
	app.InitChain(abci.RequestInitChain{
		Time:            t,
		Validators:      []abci.ValidatorUpdate{},
		ConsensusParams: consensusParams,
		AppStateBytes:   appState,
		InitialHeight:   height,
	})
	app.Commit()
	return &Chain{App: app, DB: db, Height: height, Time: t, Accounts: map[string]Account{}, BlockStep: 6 * time.Second}, nil
}

// Perm: a random permutation of 0..n-1.
func (r *Rng) Perm(n int) []int {
	p := make([]int, n)
	for i := range p {
		p[i] = i
	}
	for i := n - 1; i > 0; i-- {
		j := r.Intn(i + 1)
		p[i], p[j] = p[j], p[i]
	}
	return p
}

// ReplayJob: a stretch of recorded ABCI calls for a child process to execute on a database directory (a real process
// start in the middle of a history: everything the program keeps outside the database starts from scratch).
type ReplayJob struct {
	Dir     string
	Genesis []byte
	T0      time.Time
	Ops     []Op
	Init    bool // first stretch: InitChain before the calls
}

// RunReplayJob executes the job in this process and returns the observed results of its calls.
func RunReplayJob(j ReplayJob) []Op {
	db, err := dbm.NewGoLevelDB("application", j.Dir)
	if err != nil {
		panic(err)
	}
	defer db.Close()
	app := newApp(db)
	if j.Init {
		app.InitChain(abci.RequestInitChain{Time: j.T0, Validators: []abci.ValidatorUpdate{}, ConsensusParams: consensusParams, AppStateBytes: j.Genesis})
		app.Commit()
	}
	out := make([]Op, len(j.Ops))
	for i, o := range j.Ops {
		r := o
		r.Code, r.Data, r.GasW, r.GasU, r.Hash, r.Panic, r.Tx = 0, nil, 0, 0, nil, false, nil
		func() {
			defer func() {
				if rec := recover(); rec != nil {
					r.Panic = true
				}
			}()
			switch o.Kind {
			case 1:
				app.BeginBlock(abci.RequestBeginBlock{Header: tmproto.Header{Height: o.Height, Time: o.Time, ChainID: ""}})
			case 2:
				res := app.DeliverTx(abci.RequestDeliverTx{Tx: o.Tx})
				r.Code, r.Data, r.GasW, r.GasU = res.Code, res.Data, res.GasWanted, res.GasUsed
			case 3:
				app.EndBlock(abci.RequestEndBlock{Height: o.Height})
			case 4:
				r.Hash = app.Commit().Data
			}
		}()
		out[i] = r
	}
	return out
}
