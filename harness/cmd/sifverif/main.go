package main

import (
	"encoding/json"
	"flag"
	"fmt"
	"os"

	"sifverif/chain"
	"sifverif/extract"
	"sifverif/props"
	"sifverif/relayrig"
	"sifverif/report"
)

var gens = map[string]func(props.Ctx) *report.Report{
	"C20":  props.C20,
	"C01":  props.C01,
	"C02":  props.C02,
	"C03":  props.C03,
	"C04":  props.C04,
	"C05":  props.C05,
	"C06":  props.C06,
	"C07":  props.C07,
	"C08":  props.C08,
	"C12":  props.C12,
	"C13":  props.C13,
	"C15":  props.C15,
	"C18":  props.C18,
	"C09":  props.C09,
	"C10":  props.C10,
	"C11":  props.C11,
	"C14":  props.C14,
	"C16":  props.C16,
	"C17":  props.C17,
	"C19":  props.C19,
	"CALC": props.CalcAll,
	"HIST": props.HistAll,
}

func main() {
	if len(os.Args) < 2 {
		fmt.Fprintln(os.Stderr, "usage: sifverif gen <Cxx> --tier quick --seed N --out dir --report file")
		os.Exit(2)
	}
	switch os.Args[1] {
	case "gen":
		fs := flag.NewFlagSet("gen", flag.ExitOnError)
		tier := fs.String("tier", "quick", "")
		seed := fs.Int64("seed", 1, "")
		out := fs.String("out", ".", "")
		rp := fs.String("report", "report.json", "")
		replay := fs.String("replay", "", "")
		prop := os.Args[2]
		_ = fs.Parse(os.Args[3:])
		g, ok := gens[prop]
		if !ok {
			fmt.Fprintln(os.Stderr, "unknown property", prop)
			os.Exit(2)
		}
		rep := g(props.Ctx{Seed: *seed, Tier: *tier, OutDir: *out, Replay: *replay})
		rep.Write(*rp)
	case "extract":
		fs := flag.NewFlagSet("extract", flag.ExitOnError)
		repo := fs.String("repo", "/repo", "")
		out := fs.String("out", ".", "")
		kind := os.Args[2]
		_ = fs.Parse(os.Args[3:])
		if err := extract.Run(kind, *repo, *out); err != nil {
			fmt.Fprintln(os.Stderr, err)
			os.Exit(1)
		}
	case "relay-segment":
		relayrig.RunSegment(os.Args[2])
	case "replay-child":
		// executes the job file's calls in this fresh process; results to <job>.out
		bz, err := os.ReadFile(os.Args[2])
		if err != nil {
			panic(err)
		}
		var job chain.ReplayJob
		if err := json.Unmarshal(bz, &job); err != nil {
			panic(err)
		}
		out, _ := json.Marshal(chain.RunReplayJob(job))
		if err := os.WriteFile(os.Args[2]+".out", out, 0o644); err != nil {
			panic(err)
		}
	default:
		fmt.Fprintln(os.Stderr, "unknown command")
		os.Exit(2)
	}
}
