package env

import (
	"fmt"
	gethCommon "github.com/ethereum/go-ethereum/common"
	"math/big"
	"sort"
	"strings"

	sifapp "github.com/Sifchain/sifnode/app"
	ethbridgetypes "github.com/Sifchain/sifnode/x/ethbridge/types"
	oracletypes "github.com/Sifchain/sifnode/x/oracle/types"
	"github.com/cosmos/cosmos-sdk/crypto/keys/ed25519"
	sdk "github.com/cosmos/cosmos-sdk/types"
	authtypes "github.com/cosmos/cosmos-sdk/x/auth/types"
	stakingtypes "github.com/cosmos/cosmos-sdk/x/staking/types"

	"sifverif/chain"
)

const BridgeModuleID = 3

// BridgeEnv is a chain with staking validators, an oracle whitelist and an oracle admin.
type BridgeEnv struct {
	Genesis ethbridgetypes.GenesisState // the ethbridge genesis the chain was started from
	*chain.Chain
	Admin      chain.Account // holds all admin roles
	OracleAdm  chain.Account
	Users      []chain.Account
	Vals       []chain.Account // validator operator accounts (some never create a validator)
	Powers     []int64         // 0 = never creates a validator
	AcctID     map[string]int64
	AcctOf     map[int64]string
	ValID      map[string]int64 // ValAddress bech32 -> id (same number as the operator's account id)
	ContentID  map[string]int64
	Contents   map[int64]Content
	ProphecyID map[string]int64
	EthAddrID  map[string]int64
	BondDenom  string
}

type Content struct {
	Receiver int64
	Amount   *big.Int
	Symbol   int64
	Type     int64
}

// SymbolID: "c"^k ++ base -> 1000*k + base id.
var baseSymbols = map[string]int64{"rowan": 0, "eth": 1, "usdc": 2, "dash": 3, "stake": 4, "comp": 5, "ibc/FEEDFACE": 6, "ibc/feedface": 7, "USDT": 8, "usdt": 9}

func SymbolID(s string) int64 {
	k := int64(0)
	for {
		if id, ok := baseSymbols[s]; ok {
			return 1000*k + id
		}
		if !strings.HasPrefix(s, "c") || len(s) < 2 {
			panic("unknown symbol " + s)
		}
		s = s[1:]
		k++
	}
}

func SymbolName(id int64) string {
	k := id / 1000
	for n, b := range baseSymbols {
		if b == id%1000 {
			return strings.Repeat("c", int(k)) + n
		}
	}
	panic("symbol id")
}

// NewBridge builds the environment; powers[i] > 0 creates validator i with that consensus power,
// whitelisted[i] puts it on the oracle whitelist at genesis.
// BridgeGenesisTweak, when set, edits the ethbridge genesis of the next environments (pause flag, blacklist, token list).
var BridgeGenesisTweak func(*ethbridgetypes.GenesisState)

// BridgeWhitelistTweak, when set, edits the oracle genesis whitelist of the next environments (an entry listed twice).
var BridgeWhitelistTweak func([]string) []string

func NewBridge(powers []int64, whitelisted []bool, nUsers int) *BridgeEnv {
	e := &BridgeEnv{AcctID: map[string]int64{}, AcctOf: map[int64]string{}, ValID: map[string]int64{}, ContentID: map[string]int64{},
		Contents: map[int64]Content{}, ProphecyID: map[string]int64{}, EthAddrID: map[string]int64{}, Powers: powers}
	e.Admin = chain.NewAccount("admin")
	e.OracleAdm = chain.NewAccount("oracleadmin")
	for i := 0; i < nUsers; i++ {
		e.Users = append(e.Users, chain.NewAccount(fmt.Sprintf("buser%d", i)))
	}
	for i := range powers {
		e.Vals = append(e.Vals, chain.NewAccount(fmt.Sprintf("val%d", i)))
	}
	g := chain.Genesis{Balances: map[string]sdk.Coins{}}
	funds := sdk.NewIntFromBigInt(chain.E(30))
	all := append([]chain.Account{e.Admin, e.OracleAdm}, e.Users...)
	all = append(all, e.Vals...)
	for _, a := range all {
		g.Balances[a.Addr.String()] = sdk.NewCoins(sdk.NewCoin("rowan", funds), sdk.NewCoin("stake", funds), sdk.NewCoin("ceth", funds), sdk.NewCoin("cusdc", funds), sdk.NewCoin("dash", funds)).Sort()
	}
	g.Admins = AllAdminRoles(e.Admin.Addr.String())
	var wl []string
	for i, w := range whitelisted {
		if w {
			wl = append(wl, sdk.ValAddress(e.Vals[i].Addr).String())
		}
	}
	if BridgeWhitelistTweak != nil {
		wl = BridgeWhitelistTweak(wl)
	}
	g.Transform = func(app *sifapp.SifchainApp, gs sifapp.GenesisState) sifapp.GenesisState {
		og := oracletypes.GenesisState{AddressWhitelist: wl, AdminAddress: e.OracleAdm.Addr.String()}
		gs[oracletypes.ModuleName] = app.AppCodec().MustMarshalJSON(&og)
		var eg ethbridgetypes.GenesisState
		app.AppCodec().MustUnmarshalJSON(gs[ethbridgetypes.ModuleName], &eg)
		eg.PeggyTokens = []string{"ceth", "cusdc"}
		if BridgeGenesisTweak != nil {
			BridgeGenesisTweak(&eg)
		}
		e.Genesis = eg
		gs[ethbridgetypes.ModuleName] = app.AppCodec().MustMarshalJSON(&eg)
		return gs
	}
	e.Chain = chain.New(g)
	// ids: ethbridge module = 3, fee collector etc. untracked, others ascending from 10
	addrs := []string{}
	for _, a := range all {
		addrs = append(addrs, a.Addr.String())
	}
	sort.Strings(addrs)
	bm := authtypes.NewModuleAddress(ethbridgetypes.ModuleName).String()
	e.AcctID[bm], e.AcctOf[BridgeModuleID] = BridgeModuleID, bm
	clp := authtypes.NewModuleAddress("clp").String()
	e.AcctID[clp], e.AcctOf[ClpModuleID] = ClpModuleID, clp
	for i, a := range addrs {
		e.AcctID[a] = int64(10 + i)
		e.AcctOf[int64(10+i)] = a
	}
	for _, v := range e.Vals {
		e.ValID[sdk.ValAddress(v.Addr).String()] = e.AcctID[v.Addr.String()]
	}
	e.BeginBlock()
	e.BondDenom = e.App.StakingKeeper.BondDenom(e.Ctx())
	// validators through the real staking message
	for i, p := range powers {
		if p <= 0 {
			continue
		}
		pk := ed25519.GenPrivKeyFromSecret([]byte(fmt.Sprintf("cons%d", i))).PubKey()
		amt := sdk.NewIntFromBigInt(new(big.Int).Mul(big.NewInt(p), chain.E(18)))
		msg, err := stakingtypes.NewMsgCreateValidator(sdk.ValAddress(e.Vals[i].Addr), pk, sdk.NewCoin(e.BondDenom, amt),
			stakingtypes.NewDescription(fmt.Sprintf("v%d", i), "", "", "", ""),
			stakingtypes.NewCommissionRates(sdk.NewDecWithPrec(10, 2), sdk.NewDecWithPrec(20, 2), sdk.NewDecWithPrec(1, 2)), sdk.OneInt())
		if err != nil {
			panic(err)
		}
		res := e.Tx(e.Vals[i], msg)
		if res.Code != 0 {
			panic("create validator: " + res.Log)
		}
	}
	e.NextBlock() // EndBlock bonds them
	return e
}

func (e *BridgeEnv) ValAddr(i int) sdk.ValAddress { return sdk.ValAddress(e.Vals[i].Addr) }

// ---- snapshot ------------------------------------------------------------------------------------

type Prophecy struct {
	ID      int64
	Status  int64
	Final   int64
	Claims  map[int64][]int64 // content -> validators
	VClaims map[int64]int64
}

type BridgeState struct {
	Balances   []Bal
	Supply     []Bal
	Blocked    []int64
	Whitelist  []int64
	Validators [][3]int64 // id, power, bonded
	Prophecies []Prophecy
	Peggy      []int64
	Paused     bool
	Blacklist  []int64
	CethRecv   int64 // -1 = unset
	OracleAdm  int64
	Accounts   []int64
}

var bridgeDenoms = []string{"rowan", "eth", "usdc", "dash", "stake", "comp", "ceth", "cusdc", "cdash", "crowan", "cstake", "ccomp", "cceth", "ccusdc", "cccomp", "ccceth", "ibc/FEEDFACE", "ibc/feedface", "cibc/FEEDFACE", "cibc/feedface", "USDT", "usdt", "cUSDT", "cusdt", "ccUSDT"}

func (e *BridgeEnv) contentID(js string) int64 {
	if id, ok := e.ContentID[js]; ok {
		return id
	}
	id := int64(len(e.ContentID) + 1)
	e.ContentID[js] = id
	return id
}

func (e *BridgeEnv) prophecyID(s string) int64 {
	if id, ok := e.ProphecyID[s]; ok {
		return id
	}
	id := int64(len(e.ProphecyID) + 1)
	e.ProphecyID[s] = id
	return id
}

// EthID: one id per Ethereum ACCOUNT — the spellings of one address (checksummed, lower case, upper case, without the 0x
// prefix) all name the same account on Ethereum and in the relayer (common.HexToAddress).
func (e *BridgeEnv) EthID(addr string) int64 {
	if gethCommon.IsHexAddress(addr) {
		addr = gethCommon.HexToAddress(addr).Hex()
	}
	if id, ok := e.EthAddrID[addr]; ok {
		return id
	}
	id := int64(len(e.EthAddrID) + 1)
	e.EthAddrID[addr] = id
	return id
}

// RegisterClaim assigns ids for a claim's prophecy and content and records what the content says.
func (e *BridgeEnv) RegisterClaim(c *ethbridgetypes.EthBridgeClaim) (pid, cid int64, ct Content) {
	oc, err := ethbridgetypes.CreateOracleClaimFromEthClaim(c)
	if err != nil {
		panic(err)
	}
	pid = e.prophecyID(oc.Id)
	cid = e.contentID(oc.Content)
	recv, ok := e.AcctID[c.CosmosReceiver]
	if !ok {
		recv = 9999
	}
	// model convention: 1 = lock (credited in "c"+symbol), 2 = burn (credited in the symbol itself)
	ty := int64(0)
	switch c.ClaimType {
	case ethbridgetypes.ClaimType_CLAIM_TYPE_LOCK:
		ty = 1
	case ethbridgetypes.ClaimType_CLAIM_TYPE_BURN:
		ty = 2
	}
	ct = Content{Receiver: recv, Amount: new(big.Int).Set(c.Amount.BigInt()), Symbol: SymbolID(c.Symbol), Type: ty}
	e.Contents[cid] = ct
	return
}

func (e *BridgeEnv) Snapshot() BridgeState {
	ctx := e.Ctx()
	var s BridgeState
	ids := make([]int64, 0)
	for id := range e.AcctOf {
		ids = append(ids, id)
	}
	sort.Slice(ids, func(i, j int) bool { return ids[i] < ids[j] })
	type dn struct {
		id   int64
		name string
	}
	var dens []dn
	for _, d := range bridgeDenoms {
		dens = append(dens, dn{SymbolID(d), d})
	}
	sort.Slice(dens, func(i, j int) bool { return dens[i].id < dens[j].id })
	for _, id := range ids {
		addr, _ := sdk.AccAddressFromBech32(e.AcctOf[id])
		for _, d := range dens {
			amt := e.App.BankKeeper.GetBalance(ctx, addr, d.name).Amount.BigInt()
			if amt.Sign() != 0 {
				s.Balances = append(s.Balances, Bal{id, d.id, new(big.Int).Set(amt)})
			}
		}
		if e.App.BankKeeper.BlockedAddr(addr) {
			s.Blocked = append(s.Blocked, id)
		}
		if e.App.AccountKeeper.GetAccount(ctx, addr) != nil {
			s.Accounts = append(s.Accounts, id)
		}
	}
	for _, d := range dens {
		s.Supply = append(s.Supply, Bal{0, d.id, new(big.Int).Set(e.App.BankKeeper.GetSupply(ctx, d.name).Amount.BigInt())})
	}
	for _, w := range e.App.OracleKeeper.GetOracleWhiteList(ctx) {
		if id, ok := e.ValID[w.String()]; ok {
			s.Whitelist = append(s.Whitelist, id)
		} else {
			s.Whitelist = append(s.Whitelist, 9998)
		}
	}
	for i := range e.Vals {
		v, found := e.App.StakingKeeper.GetValidator(ctx, e.ValAddr(i))
		if !found {
			continue
		}
		b := int64(0)
		if v.IsBonded() {
			b = 1
		}
		s.Validators = append(s.Validators, [3]int64{e.ValID[e.ValAddr(i).String()], v.GetConsensusPower(sdk.DefaultPowerReduction), b})
	}
	// every known prophecy is read by id through the query path (GetProphecy), not through the listing that
	// ExportGenesis uses, so that the reader does not share a defect with the export
	var pids []string
	for id := range e.ProphecyID {
		pids = append(pids, id)
	}
	sort.Strings(pids)
	for _, id := range pids {
		p, found := e.App.OracleKeeper.GetProphecy(ctx, id)
		if !found {
			continue
		}
		pid := e.ProphecyID[p.ID]
		pr := Prophecy{ID: pid, Status: int64(p.Status.Text) - 1, Final: -1, Claims: map[int64][]int64{}, VClaims: map[int64]int64{}}
		if p.Status.FinalClaim != "" {
			pr.Final = e.contentID(p.Status.FinalClaim)
		}
		for c, vs := range p.ClaimValidators {
			cid := e.contentID(c)
			for _, v := range vs {
				pr.Claims[cid] = append(pr.Claims[cid], e.ValID[v.String()])
			}
		}
		for v, c := range p.ValidatorClaims {
			pr.VClaims[e.ValID[v]] = e.contentID(c)
		}
		s.Prophecies = append(s.Prophecies, pr)
	}
	sort.Slice(s.Prophecies, func(i, j int) bool { return s.Prophecies[i].ID < s.Prophecies[j].ID })
	for _, t := range e.App.EthbridgeKeeper.GetPeggyToken(ctx).Tokens {
		s.Peggy = append(s.Peggy, SymbolID(t))
	}
	s.Paused = e.App.EthbridgeKeeper.IsPaused(ctx)
	for _, a := range e.App.EthbridgeKeeper.GetBlacklist(ctx) {
		s.Blacklist = append(s.Blacklist, e.EthID(a))
	}
	s.CethRecv = -1
	if e.App.EthbridgeKeeper.IsCethReceiverAccountSet(ctx) {
		if id, ok := e.AcctID[e.App.EthbridgeKeeper.GetCethReceiverAccount(ctx).String()]; ok {
			s.CethRecv = id
		} else {
			s.CethRecv = 9997
		}
	}
	s.OracleAdm = -1
	if a := e.App.OracleKeeper.GetAdminAccount(ctx); a != nil {
		if id, ok := e.AcctID[a.String()]; ok {
			s.OracleAdm = id
		}
	}
	return s
}

// Bridge encodes a bridge state (mirror of Check/Bridge.dBridge). Prophecy claim maps are emitted in
// ascending content-id order; the model result must not depend on it (C05/C09).
func (e *Enc) Bridge(s BridgeState, contents map[int64]Content) *Enc {
	var accts []int64
	byAcct := map[int64][]Bal{}
	for _, b := range s.Balances {
		if _, ok := byAcct[b.Acct]; !ok {
			accts = append(accts, b.Acct)
		}
		byAcct[b.Acct] = append(byAcct[b.Acct], b)
	}
	e.Len(len(accts))
	for _, a := range accts {
		e.I(a)
		e.balStore(byAcct[a], false)
	}
	e.balStore(s.Supply, false)
	ints := func(xs []int64) {
		e.Len(len(xs))
		for _, x := range xs {
			e.I(x)
		}
	}
	ints(s.Blocked)
	ints(s.Whitelist)
	e.Len(len(s.Validators))
	for _, v := range s.Validators {
		e.I(v[0]).I(v[1]).B(v[2] != 0)
	}
	e.Len(len(s.Prophecies))
	for _, p := range s.Prophecies {
		e.I(p.ID).I(p.Status).I(p.Final)
		var cids []int64
		for c := range p.Claims {
			cids = append(cids, c)
		}
		sort.Slice(cids, func(i, j int) bool { return cids[i] < cids[j] })
		e.Len(len(cids))
		for _, c := range cids {
			e.I(c)
			ints(p.Claims[c])
		}
		var vs []int64
		for v := range p.VClaims {
			vs = append(vs, v)
		}
		sort.Slice(vs, func(i, j int) bool { return vs[i] < vs[j] })
		e.Len(len(vs))
		for _, v := range vs {
			e.I(v).I(p.VClaims[v])
		}
	}
	var cids []int64
	for c := range contents {
		cids = append(cids, c)
	}
	sort.Slice(cids, func(i, j int) bool { return cids[i] < cids[j] })
	e.Len(len(cids))
	for _, c := range cids {
		ct := contents[c]
		e.I(c).I(ct.Receiver).Z(ct.Amount).I(ct.Symbol).I(ct.Type)
	}
	ints(s.Peggy)
	e.B(s.Paused)
	ints(s.Blacklist)
	e.I(s.CethRecv).I(s.OracleAdm)
	ints(s.Accounts)
	return e
}
