// Package env builds standard chain environments (tokens, users, admin) and extracts
// the clp part of the state as integer-id records that print as Coq terms.
package env

import (
	"fmt"
	"math/big"
	"sort"
	"strings"

	admintypes "github.com/Sifchain/sifnode/x/admin/types"
	clptypes "github.com/Sifchain/sifnode/x/clp/types"
	tokenregistrytypes "github.com/Sifchain/sifnode/x/tokenregistry/types"
	sdk "github.com/cosmos/cosmos-sdk/types"
	authtypes "github.com/cosmos/cosmos-sdk/x/auth/types"

	"sifverif/chain"
)

// Env is one chain plus naming tables.
type Env struct {
	*chain.Chain
	Users  []chain.Account
	Admin  chain.Account
	Tokens []string // external token symbols, ascending, none a prefix of another
	// id tables
	DenomID map[string]int64
	AcctID  map[string]int64 // bech32 -> id
	AcctOf  map[int64]string
}

const ClpModuleID = 1

var AllPerms = []tokenregistrytypes.Permission{
	tokenregistrytypes.Permission_CLP, tokenregistrytypes.Permission_IBCEXPORT, tokenregistrytypes.Permission_IBCIMPORT,
}

func AllAdminRoles(addr string) []*admintypes.AdminAccount {
	var out []*admintypes.AdminAccount
	for _, t := range []admintypes.AdminType{admintypes.AdminType_ADMIN, admintypes.AdminType_CLPDEX, admintypes.AdminType_PMTPREWARDS,
		admintypes.AdminType_TOKENREGISTRY, admintypes.AdminType_ETHBRIDGE, admintypes.AdminType_MARGIN} {
		out = append(out, &admintypes.AdminAccount{AdminType: t, AdminAddress: addr})
	}
	return out
}

type Opts struct {
	NUsers    int
	Tokens    []string
	Funds     *big.Int // per user per denom
	Transform func(g *chain.Genesis)
}

// New builds a chain with users funded in rowan and every token, an admin holding all roles,
// and all tokens registered with CLP permission.
func New(o Opts) *Env {
	e := &Env{DenomID: map[string]int64{}, AcctID: map[string]int64{}, AcctOf: map[int64]string{}}
	toks := append([]string{}, o.Tokens...)
	sort.Strings(toks)
	for i, t := range toks {
		for j, u := range toks {
			if i != j && strings.HasPrefix(u, t) {
				panic("token symbol is a prefix of another: key order would differ from symbol order")
			}
		}
	}
	e.Tokens = toks
	e.DenomID["rowan"] = 0
	for i, t := range toks {
		e.DenomID[t] = int64(i + 1)
	}
	e.Admin = chain.NewAccount("admin")
	for i := 0; i < o.NUsers; i++ {
		e.Users = append(e.Users, chain.NewAccount(fmt.Sprintf("user%d", i)))
	}
	funds := o.Funds
	if funds == nil {
		funds = chain.E(40)
	}
	g := chain.Genesis{Balances: map[string]sdk.Coins{}}
	all := append([]chain.Account{e.Admin}, e.Users...)
	for _, a := range all {
		cs := sdk.Coins{sdk.NewCoin("rowan", sdk.NewIntFromBigInt(funds))}
		for _, t := range toks {
			cs = append(cs, sdk.NewCoin(t, sdk.NewIntFromBigInt(funds)))
		}
		g.Balances[a.Addr.String()] = cs.Sort()
	}
	g.Admins = AllAdminRoles(e.Admin.Addr.String())
	g.Registry = []*tokenregistrytypes.RegistryEntry{{Denom: "rowan", BaseDenom: "rowan", Decimals: 18, Permissions: AllPerms}}
	for _, t := range toks {
		g.Registry = append(g.Registry, &tokenregistrytypes.RegistryEntry{Denom: t, BaseDenom: t, Decimals: 18, Permissions: AllPerms})
	}
	if o.Transform != nil {
		o.Transform(&g)
	}
	e.Chain = chain.New(g)
	// account ids: clp module = 1, others ascending bech32 from 10
	addrs := []string{}
	for _, a := range all {
		addrs = append(addrs, a.Addr.String())
	}
	e.AssignAccountIDs(addrs)
	return e
}

// AssignAccountIDs numbers the given bech32 addresses in ascending string order from 10.
func (e *Env) AssignAccountIDs(addrs []string) {
	sort.Strings(addrs)
	e.AcctID = map[string]int64{}
	e.AcctOf = map[int64]string{}
	clp := authtypes.NewModuleAddress(clptypes.ModuleName).String()
	e.AcctID[clp] = ClpModuleID
	e.AcctOf[ClpModuleID] = clp
	for i, a := range addrs {
		e.AcctID[a] = int64(10 + i)
		e.AcctOf[int64(10+i)] = a
	}
}

// ---- clp state snapshot -----------------------------------------------------

type Pool struct {
	Asset                                   int64
	NB, EB, Units, NL, EL, NC, EC, RPD, RAE *big.Int
}
type Unlock struct {
	Height int64
	Units  *big.Int
}
type LP struct {
	Asset, Addr int64
	Units       *big.Int
	Unlocks     []Unlock
	Last        int64
}
type RewardPeriod struct {
	Start, End uint64
	Alloc      *big.Int
	Mults      [][2]*big.Int // asset id, multiplier (Dec int)
	Default    *big.Int
	Distribute bool
	Mod        uint64
}
type LppdPeriod struct {
	Rate       *big.Int
	Start, End uint64
	Mod        uint64
}
type Bal struct {
	Acct, Denom int64
	Amt         *big.Int
}
type ClpParams struct {
	Pmtp          *big.Int
	FeeDefault    *big.Int
	FeeTokens     [][2]*big.Int
	Lock          uint64
	Cancel        uint64
	Registry      [][2]int64 // denom id, permission bits
	Whitelist     []int64
	RewardsLock   uint64
	RewardsWallet bool
	EpochID       string
	Margin        []int64  // denom ids of the pools enabled for margin trading (x/margin Params.Pools)
	RqThreshold   *big.Int // x/margin Params.RemovalQueueThreshold (Dec)
}
type ClpState struct {
	Params   ClpParams
	Balances []Bal
	Supply   []Bal // Acct unused
	Pools    []Pool
	LPs      []LP
	Buckets  []Bal // Acct unused
	Accu     *big.Int
	Rewards  []RewardPeriod
	Lppd     []LppdPeriod
	Height   int64
}

func bi(u sdk.Uint) *big.Int { return new(big.Int).Set(u.BigInt()) }

// Snapshot reads the clp state visible in the current context.
func (e *Env) Snapshot() ClpState {
	ctx := e.Ctx()
	k := e.App.ClpKeeper
	var s ClpState
	s.Height = ctx.BlockHeight()
	for _, p := range k.GetPools(ctx) {
		id, ok := e.DenomID[p.ExternalAsset.Symbol]
		if !ok {
			panic("unknown pool asset " + p.ExternalAsset.Symbol)
		}
		s.Pools = append(s.Pools, Pool{Asset: id, NB: bi(p.NativeAssetBalance), EB: bi(p.ExternalAssetBalance), Units: bi(p.PoolUnits),
			NL: bi(p.NativeLiabilities), EL: bi(p.ExternalLiabilities), NC: bi(p.NativeCustody), EC: bi(p.ExternalCustody),
			RPD: bi(p.RewardPeriodNativeDistributed), RAE: bi(p.RewardAmountExternal)})
	}
	sort.Slice(s.Pools, func(i, j int) bool { return s.Pools[i].Asset < s.Pools[j].Asset })
	lps, err := k.GetAllLiquidityProviders(ctx)
	if err != nil {
		panic(err)
	}
	prevKey := int64(-1)
	for _, lp := range lps {
		a, ok := e.AcctID[lp.LiquidityProviderAddress]
		if !ok {
			panic("unknown LP address " + lp.LiquidityProviderAddress)
		}
		l := LP{Asset: e.DenomID[lp.Asset.Symbol], Addr: a, Units: bi(lp.LiquidityProviderUnits), Last: lp.LastUpdatedBlock}
		for _, u := range lp.Unlocks {
			l.Unlocks = append(l.Unlocks, Unlock{u.RequestHeight, bi(u.Units)})
		}
		key := l.Asset*65536 + l.Addr
		if key <= prevKey {
			panic("LP store order differs from id order")
		}
		prevKey = key
		s.LPs = append(s.LPs, l)
	}
	// balances of every known account in every known denom
	ids := make([]int64, 0, len(e.AcctOf))
	for id := range e.AcctOf {
		ids = append(ids, id)
	}
	sort.Slice(ids, func(i, j int) bool { return ids[i] < ids[j] })
	denoms := e.DenomList()
	for _, id := range ids {
		addr, _ := sdk.AccAddressFromBech32(e.AcctOf[id])
		for di, d := range denoms {
			amt := e.App.BankKeeper.GetBalance(ctx, addr, d).Amount.BigInt()
			if amt.Sign() != 0 {
				s.Balances = append(s.Balances, Bal{id, int64(di), new(big.Int).Set(amt)})
			}
		}
	}
	for di, d := range denoms {
		s.Supply = append(s.Supply, Bal{0, int64(di), new(big.Int).Set(e.App.BankKeeper.GetSupply(ctx, d).Amount.BigInt())})
	}
	for di, d := range denoms {
		b, found := k.GetRewardsBucket(ctx, d)
		if found {
			s.Buckets = append(s.Buckets, Bal{0, int64(di), new(big.Int).Set(b.Amount.BigInt())})
		}
	}
	s.Accu = bi(k.GetBlockDistributionAccu(ctx))
	rp := k.GetRewardsParams(ctx)
	for _, p := range rp.RewardPeriods {
		r := RewardPeriod{Start: p.RewardPeriodStartBlock, End: p.RewardPeriodEndBlock, Distribute: p.RewardPeriodDistribute, Mod: p.RewardPeriodMod}
		r.Alloc = bi(*p.RewardPeriodAllocation)
		r.Default = new(big.Int).Set(p.RewardPeriodDefaultMultiplier.BigInt())
		for _, m := range p.RewardPeriodPoolMultipliers {
			if m.Multiplier == nil || m.Multiplier.IsNil() {
				continue
			}
			id, ok := e.DenomID[m.PoolMultiplierAsset]
			if !ok {
				id = 60000 // unknown asset: matches no pool
			}
			r.Mults = append(r.Mults, [2]*big.Int{big.NewInt(id), new(big.Int).Set(m.Multiplier.BigInt())})
		}
		s.Rewards = append(s.Rewards, r)
	}
	pd := k.GetProviderDistributionParams(ctx)
	if pd != nil {
		for _, p := range pd.DistributionPeriods {
			s.Lppd = append(s.Lppd, LppdPeriod{Rate: new(big.Int).Set(p.DistributionPeriodBlockRate.BigInt()), Start: p.DistributionPeriodStartBlock,
				End: p.DistributionPeriodEndBlock, Mod: p.DistributionPeriodMod})
		}
	}
	// parameters read by the handlers
	s.Params.Pmtp = new(big.Int).Set(k.GetPmtpRateParams(ctx).PmtpCurrentRunningRate.BigInt())
	sf := k.GetSwapFeeParams(ctx)
	s.Params.FeeDefault = new(big.Int).Set(sf.DefaultSwapFeeRate.BigInt())
	for _, tp := range sf.TokenParams {
		id, ok := e.DenomID[tp.Asset]
		if !ok {
			id = 60000
		}
		s.Params.FeeTokens = append(s.Params.FeeTokens, [2]*big.Int{big.NewInt(id), new(big.Int).Set(tp.SwapFeeRate.BigInt())})
	}
	s.Params.Lock = rp.LiquidityRemovalLockPeriod
	s.Params.Cancel = rp.LiquidityRemovalCancelPeriod
	s.Params.RewardsLock = rp.RewardsLockPeriod
	s.Params.RewardsWallet = rp.RewardsDistribute
	s.Params.EpochID = rp.RewardsEpochIdentifier
	mp := e.App.MarginKeeper.GetParams(ctx)
	for _, sym := range mp.Pools {
		if id, ok := e.DenomID[sym]; ok {
			s.Params.Margin = append(s.Params.Margin, id)
		}
	}
	s.Params.RqThreshold = new(big.Int)
	if !mp.RemovalQueueThreshold.IsNil() {
		s.Params.RqThreshold.Set(mp.RemovalQueueThreshold.BigInt())
	}
	for _, en := range e.App.TokenRegistryKeeper.GetRegistry(ctx).Entries {
		if en == nil {
			continue
		}
		id, ok := e.DenomID[en.Denom]
		if !ok {
			continue
		}
		bits := int64(0)
		for _, pm := range en.Permissions {
			if pm >= 1 && pm <= 5 {
				bits |= 1 << uint(pm-1)
			}
		}
		s.Params.Registry = append(s.Params.Registry, [2]int64{id, bits})
	}
	for _, a := range k.GetClpWhiteList(ctx) {
		if id, ok := e.AcctID[a.String()]; ok {
			s.Params.Whitelist = append(s.Params.Whitelist, id)
		}
	}
	return s
}

func (e *Env) DenomList() []string {
	out := make([]string, len(e.DenomID))
	for d, i := range e.DenomID {
		out[i] = d
	}
	return out
}

// ---- token encoding (decoded by coq/Check/Decode.v and DecClp.v) -----------------------

// Enc accumulates primitive-int tokens: each integer is a header 2*nlimbs+sign followed by base-2^60 limbs.
type Enc struct{ W []uint64 }

var limbMask = new(big.Int).Sub(new(big.Int).Lsh(big.NewInt(1), 60), big.NewInt(1))

func (e *Enc) Z(x *big.Int) *Enc {
	a := new(big.Int).Abs(x)
	var limbs []uint64
	for a.Sign() > 0 {
		limbs = append(limbs, new(big.Int).And(a, limbMask).Uint64())
		a.Rsh(a, 60)
	}
	h := uint64(2 * len(limbs))
	if x.Sign() < 0 {
		h++
	}
	e.W = append(e.W, h)
	e.W = append(e.W, limbs...)
	return e
}
func (e *Enc) I(x int64) *Enc  { return e.Z(big.NewInt(x)) }
func (e *Enc) U(x uint64) *Enc { return e.Z(new(big.Int).SetUint64(x)) }
func (e *Enc) B(b bool) *Enc {
	if b {
		return e.I(1)
	}
	return e.I(0)
}
func (e *Enc) Len(n int) *Enc { return e.I(int64(n)) }

// Coq renders the token list as a Coq term of type list int.
func (e *Enc) Coq() string {
	var sb strings.Builder
	sb.WriteString("[")
	for i, w := range e.W {
		if i > 0 {
			sb.WriteString(";")
		}
		sb.WriteString(fmt.Sprint(w))
	}
	sb.WriteString("]")
	return sb.String()
}

func (e *Enc) balStore(bs []Bal, withAcct bool) {
	e.Len(len(bs))
	for _, b := range bs {
		k := b.Denom
		if withAcct {
			k = b.Acct*65536 + b.Denom
		}
		e.I(k).Z(b.Amt)
	}
}

// Clp encodes a clp state (mirror of DecClp.dClp).
func (e *Enc) Clp(s ClpState) *Enc {
	// balances: account -> denom -> amount (Balances is sorted by account, then denom)
	var accts []int64
	byAcct := map[int64][]Bal{}
	for _, b := range s.Balances {
		if _, ok := byAcct[b.Acct]; !ok {
			accts = append(accts, b.Acct)
		}
		byAcct[b.Acct] = append(byAcct[b.Acct], b)
	}
	e.Len(len(accts))
	for _, a := range accts {
		e.I(a)
		e.balStore(byAcct[a], false)
	}
	e.balStore(s.Supply, false)
	e.Len(len(s.Pools))
	for _, p := range s.Pools {
		e.I(p.Asset).Z(p.NB).Z(p.EB).Z(p.Units).Z(p.NL).Z(p.EL).Z(p.NC).Z(p.EC).Z(p.RPD).Z(p.RAE)
	}
	// providers: asset -> address -> record (LPs is sorted by asset, then address)
	var assets []int64
	byAsset := map[int64][]LP{}
	for _, l := range s.LPs {
		if _, ok := byAsset[l.Asset]; !ok {
			assets = append(assets, l.Asset)
		}
		byAsset[l.Asset] = append(byAsset[l.Asset], l)
	}
	e.Len(len(assets))
	for _, a := range assets {
		e.I(a).Len(len(byAsset[a]))
		for _, l := range byAsset[a] {
			e.I(l.Addr).Z(l.Units).Len(len(l.Unlocks))
			for _, u := range l.Unlocks {
				e.I(u.Height).Z(u.Units)
			}
			e.I(l.Last)
		}
	}
	e.balStore(s.Buckets, false)
	e.Z(s.Accu)
	e.Len(len(s.Rewards))
	for _, r := range s.Rewards {
		e.U(r.Start).U(r.End).Z(r.Alloc).Len(len(r.Mults))
		for _, m := range r.Mults {
			e.Z(m[0]).Z(m[1])
		}
		e.Z(r.Default).B(r.Distribute).U(r.Mod)
	}
	e.Len(len(s.Lppd))
	for _, p := range s.Lppd {
		e.Z(p.Rate).U(p.Start).U(p.End).U(p.Mod)
	}
	e.I(s.Height)
	e.Z(s.Params.Pmtp).Z(s.Params.FeeDefault).Len(len(s.Params.FeeTokens))
	for _, f := range s.Params.FeeTokens {
		e.Z(f[0]).Z(f[1])
	}
	e.U(s.Params.Lock).U(s.Params.Cancel).Len(len(s.Params.Registry))
	for _, r := range s.Params.Registry {
		e.I(r[0]).I(r[1])
	}
	e.Len(len(s.Params.Whitelist))
	for _, w := range s.Params.Whitelist {
		e.I(w)
	}
	e.U(s.Params.RewardsLock).B(s.Params.RewardsWallet)
	e.Len(len(s.Params.Margin))
	for _, m := range s.Params.Margin {
		e.I(m)
	}
	if s.Params.RqThreshold == nil {
		e.Z(new(big.Int))
	} else {
		e.Z(s.Params.RqThreshold)
	}
	return e
}
