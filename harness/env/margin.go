package env

import (
	"math/big"
	"sort"

	margintypes "github.com/Sifchain/sifnode/x/margin/types"
	sdk "github.com/cosmos/cosmos-sdk/types"
)

// ---- x/margin state snapshot (mirror of coq/Model/Margin.mstate) -------------------------------

type MPool struct {
	Asset                                                  int64
	NB, EB, NL, EL, NC, EC, UN, UE, BIN, BIE, Rate, RN, RD *big.Int
	Health                                                 *big.Int // nil when unset
}
type MTP struct {
	Addr, ID                                                   int64
	CollAsset, CustAsset                                       int64
	CollAmt, Liab, IPaidColl, IPaidCust, IUnpaid, CustAmt, Lev *big.Int
	Health                                                     *big.Int
}
type MParams struct {
	LevMax, Safety                  *big.Int
	EpochLen                        int64
	Incr                            bool
	IncrPct                         *big.Int
	IncrFund                        int64
	FcPct                           *big.Int
	FcFund                          int64
	Pools, Closed                   []int64
	Whitelisting                    bool
	MaxOpen                         uint64
	RowanColl                       bool
	RateMin, RateMinNum, RateMinDen *big.Int
	OpenThreshold                   *big.Int
}
type MarginState struct {
	Balances   []Bal
	Pools      []MPool
	MTPs       []MTP
	Count      uint64
	Open       uint64
	Height     int64
	Params     MParams
	Whitelist  []int64
	FeeDefault *big.Int
	FeeTokens  [][2]*big.Int
	Pmtp       *big.Int
}

func safeUint(u sdk.Uint) (out *big.Int) {
	defer func() {
		if recover() != nil {
			out = big.NewInt(0)
		}
	}()
	return new(big.Int).Set(u.BigInt())
}

func decInt(d sdk.Dec) *big.Int {
	if d.IsNil() {
		return big.NewInt(0)
	}
	return new(big.Int).Set(d.BigInt())
}

// FloatFrac returns float64(d) as the exact fraction the code obtains with big.Rat.SetFloat64(d.MustFloat64()).
func FloatFrac(d sdk.Dec) (*big.Int, *big.Int) {
	if d.IsNil() {
		return big.NewInt(0), big.NewInt(1)
	}
	var r big.Rat
	r.SetFloat64(d.MustFloat64())
	return new(big.Int).Set(r.Num()), new(big.Int).Set(r.Denom())
}

func (e *Env) idOf(addr string) int64 {
	id, ok := e.AcctID[addr]
	if !ok {
		panic("unknown address " + addr)
	}
	return id
}

func (e *Env) denomOf(sym string) int64 {
	id, ok := e.DenomID[sym]
	if !ok {
		return 60000
	}
	return id
}

// MarginSnapshot reads the part of the state x/margin works on.
func (e *Env) MarginSnapshot() MarginState {
	ctx := e.Ctx()
	var s MarginState
	s.Height = ctx.BlockHeight()
	for _, p := range e.App.ClpKeeper.GetPools(ctx) {
		mp := MPool{Asset: e.denomOf(p.ExternalAsset.Symbol), NB: safeUint(p.NativeAssetBalance), EB: safeUint(p.ExternalAssetBalance),
			NL: safeUint(p.NativeLiabilities), EL: safeUint(p.ExternalLiabilities), NC: safeUint(p.NativeCustody), EC: safeUint(p.ExternalCustody),
			UN: safeUint(p.UnsettledNativeLiabilities), UE: safeUint(p.UnsettledExternalLiabilities),
			BIN: safeUint(p.BlockInterestNative), BIE: safeUint(p.BlockInterestExternal), Rate: decInt(p.InterestRate)}
		mp.RN, mp.RD = FloatFrac(p.InterestRate)
		if !p.Health.IsNil() {
			mp.Health = decInt(p.Health)
		}
		s.Pools = append(s.Pools, mp)
	}
	sort.Slice(s.Pools, func(i, j int) bool { return s.Pools[i].Asset < s.Pools[j].Asset })
	k := e.App.MarginKeeper
	// the stored positions, read key by key from the store (not through the listing helpers that the genesis export and
	// the queries use: those are what is being checked)
	var stored []*margintypes.MTP
	it := k.GetMTPIterator(ctx)
	for ; it.Valid(); it.Next() {
		var m margintypes.MTP
		e.App.AppCodec().MustUnmarshal(it.Value(), &m)
		stored = append(stored, &m)
	}
	it.Close()
	for _, m := range stored {
		s.MTPs = append(s.MTPs, MTP{Addr: e.idOf(m.Address), ID: int64(m.Id), CollAsset: e.denomOf(m.CollateralAsset), CustAsset: e.denomOf(m.CustodyAsset),
			CollAmt: safeUint(m.CollateralAmount), Liab: safeUint(m.Liabilities), IPaidColl: safeUint(m.InterestPaidCollateral), IPaidCust: safeUint(m.InterestPaidCustody),
			IUnpaid: safeUint(m.InterestUnpaidCollateral), CustAmt: safeUint(m.CustodyAmount), Lev: decInt(m.Leverage), Health: decInt(m.MtpHealth)})
	}
	sort.Slice(s.MTPs, func(i, j int) bool {
		if s.MTPs[i].Addr != s.MTPs[j].Addr {
			return s.MTPs[i].Addr < s.MTPs[j].Addr
		}
		return s.MTPs[i].ID < s.MTPs[j].ID
	})
	s.Count, s.Open = k.GetMTPCount(ctx), k.GetOpenMTPCount(ctx)
	ps := k.GetParams(ctx)
	s.Params = MParams{LevMax: decInt(ps.LeverageMax), Safety: decInt(ps.SafetyFactor), EpochLen: ps.EpochLength, Incr: ps.IncrementalInterestPaymentEnabled,
		IncrPct: decInt(ps.IncrementalInterestPaymentFundPercentage), FcPct: decInt(ps.ForceCloseFundPercentage),
		Whitelisting: ps.WhitelistingEnabled, MaxOpen: ps.MaxOpenPositions, RowanColl: ps.RowanCollateralEnabled, RateMin: decInt(ps.InterestRateMin),
		OpenThreshold: decInt(ps.PoolOpenThreshold)}
	s.Params.IncrFund, s.Params.FcFund = e.idOf(ps.IncrementalInterestPaymentFundAddress), e.idOf(ps.ForceCloseFundAddress)
	s.Params.RateMinNum, s.Params.RateMinDen = FloatFrac(ps.InterestRateMin)
	for _, p := range ps.Pools {
		s.Params.Pools = append(s.Params.Pools, e.denomOf(p))
	}
	for _, p := range ps.ClosedPools {
		s.Params.Closed = append(s.Params.Closed, e.denomOf(p))
	}
	wl, _, _ := k.GetWhitelist(ctx, nil)
	for _, a := range wl {
		if id, ok := e.AcctID[a]; ok {
			s.Whitelist = append(s.Whitelist, id)
		}
	}
	// balances of every known account in every known denom
	ids := make([]int64, 0, len(e.AcctOf))
	for id := range e.AcctOf {
		ids = append(ids, id)
	}
	sort.Slice(ids, func(i, j int) bool { return ids[i] < ids[j] })
	for _, id := range ids {
		addr, _ := sdk.AccAddressFromBech32(e.AcctOf[id])
		for di, d := range e.DenomList() {
			amt := e.App.BankKeeper.GetBalance(ctx, addr, d).Amount.BigInt()
			if amt.Sign() != 0 {
				s.Balances = append(s.Balances, Bal{id, int64(di), new(big.Int).Set(amt)})
			}
		}
	}
	ck := e.App.ClpKeeper
	s.Pmtp = new(big.Int).Set(ck.GetPmtpRateParams(ctx).PmtpCurrentRunningRate.BigInt())
	sf := ck.GetSwapFeeParams(ctx)
	s.FeeDefault = new(big.Int).Set(sf.DefaultSwapFeeRate.BigInt())
	for _, tp := range sf.TokenParams {
		s.FeeTokens = append(s.FeeTokens, [2]*big.Int{big.NewInt(e.denomOf(tp.Asset)), new(big.Int).Set(tp.SwapFeeRate.BigInt())})
	}
	return s
}

// Margin encodes a margin state (mirror of coq/Check/Margin.dMState).
func (e *Enc) Margin(s MarginState) *Enc {
	var accts []int64
	byAcct := map[int64][]Bal{}
	for _, b := range s.Balances {
		if _, ok := byAcct[b.Acct]; !ok {
			accts = append(accts, b.Acct)
		}
		byAcct[b.Acct] = append(byAcct[b.Acct], b)
	}
	e.Len(len(accts))
	for _, a := range accts {
		e.I(a)
		e.balStore(byAcct[a], false)
	}
	e.Len(len(s.Pools))
	for _, p := range s.Pools {
		e.I(p.Asset).Z(p.NB).Z(p.EB).Z(p.NL).Z(p.EL).Z(p.NC).Z(p.EC).Z(p.UN).Z(p.UE).Z(p.BIN).Z(p.BIE).Z(p.Rate).Z(p.RN).Z(p.RD)
	}
	var addrs []int64
	byAddr := map[int64][]MTP{}
	for _, m := range s.MTPs {
		if _, ok := byAddr[m.Addr]; !ok {
			addrs = append(addrs, m.Addr)
		}
		byAddr[m.Addr] = append(byAddr[m.Addr], m)
	}
	e.Len(len(addrs))
	for _, a := range addrs {
		e.I(a).Len(len(byAddr[a]))
		for _, m := range byAddr[a] {
			e.I(m.ID).I(m.CollAsset).Z(m.CollAmt).Z(m.Liab).Z(m.IPaidColl).Z(m.IPaidCust).Z(m.IUnpaid).I(m.CustAsset).Z(m.CustAmt).Z(m.Lev)
		}
	}
	e.U(s.Count).U(s.Open).I(s.Height)
	p := s.Params
	e.Z(p.LevMax).Z(p.Safety).I(p.EpochLen).B(p.Incr).Z(p.IncrPct).I(p.IncrFund).Z(p.FcPct).I(p.FcFund)
	e.Len(len(p.Pools))
	for _, x := range p.Pools {
		e.I(x)
	}
	e.Len(len(p.Closed))
	for _, x := range p.Closed {
		e.I(x)
	}
	e.B(p.Whitelisting).U(p.MaxOpen).B(p.RowanColl).Z(p.RateMin).Z(p.RateMinNum).Z(p.RateMinDen)
	e.Len(len(s.Whitelist))
	for _, w := range s.Whitelist {
		e.I(w)
	}
	e.Z(s.FeeDefault).Len(len(s.FeeTokens))
	for _, f := range s.FeeTokens {
		e.Z(f[0]).Z(f[1])
	}
	e.Z(s.Pmtp)
	return e
}

var _ = margintypes.ModuleName
