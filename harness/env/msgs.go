package env

import (
	"math/big"

	clptypes "github.com/Sifchain/sifnode/x/clp/types"
	sdk "github.com/cosmos/cosmos-sdk/types"

	"sifverif/chain"
)

func U(x *big.Int) sdk.Uint { return sdk.NewUintFromBigInt(x) }

func (e *Env) CreatePool(u chain.Account, tok string, native, ext *big.Int) chain.TxResult {
	m := clptypes.NewMsgCreatePool(u.Addr, clptypes.NewAsset(tok), U(native), U(ext))
	return e.Tx(u, &m)
}
func (e *Env) AddLiquidity(u chain.Account, tok string, native, ext *big.Int) chain.TxResult {
	m := clptypes.NewMsgAddLiquidity(u.Addr, clptypes.NewAsset(tok), U(native), U(ext))
	return e.Tx(u, &m)
}
func (e *Env) RemoveLiquidity(u chain.Account, tok string, wbasis, asym int64) chain.TxResult {
	m := clptypes.NewMsgRemoveLiquidity(u.Addr, clptypes.NewAsset(tok), sdk.NewInt(wbasis), sdk.NewInt(asym))
	return e.Tx(u, &m)
}
func (e *Env) RemoveLiquidityUnits(u chain.Account, tok string, units *big.Int) chain.TxResult {
	m := clptypes.NewMsgRemoveLiquidityUnits(u.Addr, clptypes.NewAsset(tok), U(units))
	return e.Tx(u, &m)
}
func (e *Env) Swap(u chain.Account, from, to string, amt, min *big.Int) chain.TxResult {
	m := clptypes.NewMsgSwap(u.Addr, clptypes.NewAsset(from), clptypes.NewAsset(to), U(amt), U(min))
	return e.Tx(u, &m)
}
func (e *Env) AddRewardPeriods(ps []*clptypes.RewardPeriod) chain.TxResult {
	m := clptypes.MsgAddRewardPeriodRequest{Signer: e.Admin.Addr.String(), RewardPeriods: ps}
	return e.Tx(e.Admin, &m)
}
func (e *Env) AddLppdPeriods(ps []*clptypes.ProviderDistributionPeriod) chain.TxResult {
	m := clptypes.MsgAddProviderDistributionPeriodRequest{Signer: e.Admin.Addr.String(), DistributionPeriods: ps}
	return e.Tx(e.Admin, &m)
}
func (e *Env) UpdateRewardsParams(lock, cancel, rewardsLock uint64, epochID string, distribute bool) chain.TxResult {
	m := clptypes.MsgUpdateRewardsParamsRequest{Signer: e.Admin.Addr.String(), LiquidityRemovalLockPeriod: lock, LiquidityRemovalCancelPeriod: cancel,
		RewardsLockPeriod: rewardsLock, RewardsEpochIdentifier: epochID, RewardsDistribute: distribute}
	return e.Tx(e.Admin, &m)
}
