package extract

import (
	"fmt"
	"go/ast"
	"go/parser"
	"go/token"
	"path/filepath"
	"sort"
	"strings"
)

// AuthEntry is what the extractor found for one Msg service method.
type AuthEntry struct {
	Module string
	Method string
	Role   string   // ADMIN, TOKENREGISTRY, PMTPREWARDS, CLPDEX, MARGIN, ETHBRIDGE, ORACLE_ADMIN, CLP_WHITELIST, NONE
	Before []string // kinds of statements executed before the guard
}

type pkgFuncs map[string]*ast.FuncDecl // "Recv.Name" -> decl

func loadFuncs(repo, dir string) pkgFuncs {
	out := pkgFuncs{}
	fset := token.NewFileSet()
	for _, p := range goFiles(repo, []string{dir}) {
		if filepath.Dir(p) != filepath.Join(repo, dir) {
			continue
		}
		f, err := parser.ParseFile(fset, p, nil, parser.ParseComments)
		if err != nil || hasVerifTag(f) {
			continue
		}
		for _, d := range f.Decls {
			if fd, ok := d.(*ast.FuncDecl); ok && fd.Body != nil {
				out[funcName(fd)] = fd
			}
		}
	}
	return out
}

func exprText(e ast.Expr) string {
	switch x := e.(type) {
	case *ast.Ident:
		return x.Name
	case *ast.SelectorExpr:
		return exprText(x.X) + "." + x.Sel.Name
	case *ast.CallExpr:
		return exprText(x.Fun) + "()"
	case *ast.UnaryExpr:
		return x.Op.String() + exprText(x.X)
	case *ast.StarExpr:
		return "*" + exprText(x.X)
	case *ast.ParenExpr:
		return "(" + exprText(x.X) + ")"
	}
	return "?"
}

// guardIn looks for a role check inside expression e (possibly negated / and-ed).
func guardIn(e ast.Expr) string {
	role := ""
	ast.Inspect(e, func(n ast.Node) bool {
		ce, ok := n.(*ast.CallExpr)
		if !ok {
			return true
		}
		se, ok := ce.Fun.(*ast.SelectorExpr)
		if !ok {
			return true
		}
		switch se.Sel.Name {
		case "IsAdminAccount":
			for _, a := range ce.Args {
				t := exprText(a)
				if i := strings.Index(t, "AdminType_"); i >= 0 {
					role = t[i+len("AdminType_"):]
				}
			}
			if role == "" {
				role = "ORACLE_ADMIN" // oracle keeper's single admin account
			}
		case "ValidateAddress":
			role = "CLP_WHITELIST"
		}
		return true
	})
	return role
}

func returnsEarly(b *ast.BlockStmt) bool {
	for _, s := range b.List {
		if _, ok := s.(*ast.ReturnStmt); ok {
			return true
		}
	}
	return false
}

func calleeOf(e ast.Expr) (recvText, name string, ok bool) {
	ce, isCall := e.(*ast.CallExpr)
	if !isCall {
		return "", "", false
	}
	switch f := ce.Fun.(type) {
	case *ast.SelectorExpr:
		return exprText(f.X), f.Sel.Name, true
	case *ast.Ident:
		return "", f.Name, true
	}
	return "", "", false
}

var pureCallPrefixes = []string{"Get", "Is", "Exists", "Has", "Unwrap", "AccAddressFromBech32", "ValAddressFromBech32", "ValidateBasic", "Logger", "Wrap", "Wrapf", "Errorf", "Sprintf", "New", "String", "StringCompare", "Error", "Info", "Debug", "Equal", "Equals", "Empty", "Len", "Add", "Sub", "GT", "LT", "GTE", "LTE", "IsZero", "IsNil", "Mul", "Quo"}

func isPureCall(name string) bool {
	for _, p := range pureCallPrefixes {
		if strings.HasPrefix(name, p) {
			return true
		}
	}
	return false
}

// stmtKind classifies a statement that precedes the guard.
func stmtKind(s ast.Stmt) string {
	impure := ""
	ast.Inspect(s, func(n ast.Node) bool {
		if ce, ok := n.(*ast.CallExpr); ok {
			if _, name, ok := calleeOf(ce); ok && !isPureCall(name) {
				impure = name
			}
		}
		return true
	})
	if impure != "" {
		return "impure:" + impure
	}
	switch s.(type) {
	case *ast.AssignStmt, *ast.DeclStmt:
		return "read"
	case *ast.IfStmt:
		return "check"
	case *ast.ExprStmt:
		return "read"
	}
	return "other"
}

// findGuard scans the body; follows keeper-method calls up to depth levels.
func findGuard(body *ast.BlockStmt, funcsByName map[string][]*ast.FuncDecl, depth int) (role string, before []string, found bool) {
	for _, s := range body.List {
		if is, ok := s.(*ast.IfStmt); ok {
			if r := guardIn(is.Cond); r != "" && returnsEarly(is.Body) {
				return r, before, true
			}
			if is.Init != nil {
				if r, b2, ok := followCalls(is.Init, funcsByName, depth); ok {
					return r, append(before, b2...), true
				}
			}
		}
		if r, b2, ok := followCalls(s, funcsByName, depth); ok {
			return r, append(before, b2...), true
		}
		before = append(before, stmtKind(s))
	}
	return "", before, false
}

func followCalls(s ast.Stmt, funcsByName map[string][]*ast.FuncDecl, depth int) (string, []string, bool) {
	if depth <= 0 {
		return "", nil, false
	}
	var role string
	var before []string
	found := false
	ast.Inspect(s, func(n ast.Node) bool {
		if found {
			return false
		}
		ce, ok := n.(*ast.CallExpr)
		if !ok {
			return true
		}
		_, name, ok := calleeOf(ce)
		if !ok || isPureCall(name) {
			return true
		}
		for _, fd := range funcsByName[name] {
			if r, b, ok := findGuard(fd.Body, funcsByName, depth-1); ok {
				role, before, found = r, b, true
				return false
			}
		}
		return true
	})
	return role, before, found
}

var msgModules = []string{"admin", "tokenregistry", "clp", "margin", "ethbridge", "dispensation"}

// AuthTable extracts the guard of every Msg service method.
func AuthTable(repo string) []AuthEntry {
	var out []AuthEntry
	// keeper methods of all modules by bare name (for delegated guards)
	byName := map[string][]*ast.FuncDecl{}
	for _, m := range append(msgModules, "oracle") {
		for k, fd := range loadFuncs(repo, filepath.Join("x", m, "keeper")) {
			if strings.HasPrefix(k, "Keeper.") || strings.HasPrefix(k, "keeper.") {
				byName[fd.Name.Name] = append(byName[fd.Name.Name], fd)
			}
		}
	}
	for _, m := range msgModules {
		methods := msgServiceMethods(repo, m)
		funcs := loadFuncs(repo, filepath.Join("x", m, "keeper"))
		for _, meth := range methods {
			fd := funcs["msgServer."+meth]
			e := AuthEntry{Module: m, Method: meth, Role: "MISSING"}
			if fd != nil {
				role, before, found := findGuard(fd.Body, byName, 2)
				if found {
					e.Role, e.Before = role, before
				} else {
					e.Role = "NONE"
				}
			}
			out = append(out, e)
		}
	}
	sort.Slice(out, func(i, j int) bool {
		if out[i].Module != out[j].Module {
			return out[i].Module < out[j].Module
		}
		return out[i].Method < out[j].Method
	})
	return out
}

// msgServiceMethods reads the MsgServer interface of the generated tx.pb.go.
func msgServiceMethods(repo, module string) []string {
	fset := token.NewFileSet()
	f, err := parser.ParseFile(fset, filepath.Join(repo, "x", module, "types", "tx.pb.go"), nil, 0)
	if err != nil {
		return nil
	}
	var out []string
	for _, d := range f.Decls {
		gd, ok := d.(*ast.GenDecl)
		if !ok {
			continue
		}
		for _, sp := range gd.Specs {
			ts, ok := sp.(*ast.TypeSpec)
			if !ok || ts.Name.Name != "MsgServer" {
				continue
			}
			if it, ok := ts.Type.(*ast.InterfaceType); ok {
				for _, m := range it.Methods.List {
					for _, n := range m.Names {
						out = append(out, n.Name)
					}
				}
			}
		}
	}
	sort.Strings(out)
	return out
}

func genAuth(repo, out string) error {
	tbl := AuthTable(repo)
	var rows []string
	for _, e := range tbl {
		pure := "true"
		for _, b := range e.Before {
			if strings.HasPrefix(b, "impure") || b == "other" {
				pure = "false"
			}
		}
		rows = append(rows, fmt.Sprintf("(%s, %s, %s, %s)", coqString(e.Module), coqString(e.Method), coqString(e.Role), pure))
	}
	body := fmt.Sprintf("(* (module, Msg service method, role checked first, only reads/parsing before the check) *)\nDefinition gen_auth_table : list (string * string * string * bool) := [\n  %s].\n", strings.Join(rows, ";\n  "))
	return writeV(out, "AuthTable.v", body)
}
