package extract

import (
	"bytes"
	"fmt"
	"go/ast"
	"go/parser"
	"go/printer"
	"go/token"
	"path/filepath"
	"sort"
	"strings"
)

// genClock lists (a) every wall-clock / randomness call in the state machine's packages and (b) every
// range statement over a map-typed expression (Go randomises map iteration order).
func genClock(repo, out string) error {
	fset := token.NewFileSet()
	files := map[string]*ast.File{}
	for _, p := range goFiles(repo, []string{"x", "app"}) {
		if strings.Contains(p, "/client/") {
			continue // CLI / REST glue: not executed by the state machine
		}
		f, err := parser.ParseFile(fset, p, nil, parser.ParseComments)
		if err != nil || hasVerifTag(f) {
			continue
		}
		rel, _ := filepath.Rel(repo, p)
		files[rel] = f
	}
	names := make([]string, 0, len(files))
	for n := range files {
		names = append(names, n)
	}
	sort.Strings(names)
	// global: struct fields of map type, functions returning a map
	mapFields, mapFuncs := map[string]bool{}, map[string]bool{}
	namedMaps := map[string]bool{}
	for _, n := range names {
		for _, d := range files[n].Decls {
			if gd, ok := d.(*ast.GenDecl); ok && gd.Tok == token.TYPE {
				for _, sp := range gd.Specs {
					if ts, ok := sp.(*ast.TypeSpec); ok {
						if _, ok := ts.Type.(*ast.MapType); ok {
							namedMaps[ts.Name.Name] = true
						}
					}
				}
			}
		}
	}
	isMap := func(e ast.Expr) bool {
		if s, ok := e.(*ast.StarExpr); ok {
			e = s.X
		}
		switch t := e.(type) {
		case *ast.MapType:
			return true
		case *ast.Ident:
			return namedMaps[t.Name]
		case *ast.SelectorExpr:
			return namedMaps[t.Sel.Name]
		}
		return false
	}
	for _, n := range names {
		ast.Inspect(files[n], func(x ast.Node) bool {
			switch t := x.(type) {
			case *ast.StructType:
				for _, fl := range t.Fields.List {
					if isMap(fl.Type) {
						for _, id := range fl.Names {
							mapFields[id.Name] = true
						}
					}
				}
			case *ast.FuncDecl:
				if t.Type.Results != nil {
					for i, r := range t.Type.Results.List {
						if isMap(r.Type) {
							mapFuncs[fmt.Sprintf("%s#%d", t.Name.Name, i)] = true
						}
					}
				}
			}
			return true
		})
	}
	text := func(e ast.Expr) string {
		var b bytes.Buffer
		_ = printer.Fprint(&b, fset, e)
		return b.String()
	}
	var clock, ranges []string
	for _, n := range names {
		for _, d := range files[n].Decls {
			fd, ok := d.(*ast.FuncDecl)
			if !ok || fd.Body == nil {
				continue
			}
			local := map[string]bool{}
			if fd.Type.Params != nil {
				for _, fl := range fd.Type.Params.List {
					if isMap(fl.Type) {
						for _, id := range fl.Names {
							local[id.Name] = true
						}
					}
				}
			}
			isMapValue := func(e ast.Expr) bool {
				switch v := e.(type) {
				case *ast.CallExpr:
					if id, ok := v.Fun.(*ast.Ident); ok && id.Name == "make" && len(v.Args) > 0 && isMap(v.Args[0]) {
						return true
					}
					switch fn := v.Fun.(type) {
					case *ast.Ident:
						return mapFuncs[fn.Name+"#0"]
					case *ast.SelectorExpr:
						return mapFuncs[fn.Sel.Name+"#0"]
					}
				case *ast.CompositeLit:
					return v.Type != nil && isMap(v.Type)
				}
				return false
			}
			ast.Inspect(fd.Body, func(x ast.Node) bool {
				switch t := x.(type) {
				case *ast.AssignStmt:
					if len(t.Rhs) == 1 && len(t.Lhs) > 1 {
						if ce, ok := t.Rhs[0].(*ast.CallExpr); ok {
							fname := ""
							switch fn := ce.Fun.(type) {
							case *ast.Ident:
								fname = fn.Name
							case *ast.SelectorExpr:
								fname = fn.Sel.Name
							}
							for i, l := range t.Lhs {
								if id, ok := l.(*ast.Ident); ok && mapFuncs[fmt.Sprintf("%s#%d", fname, i)] {
									local[id.Name] = true
								}
							}
						}
					}
					for i, r := range t.Rhs {
						if i < len(t.Lhs) && isMapValue(r) {
							if id, ok := t.Lhs[i].(*ast.Ident); ok {
								local[id.Name] = true
							}
						}
					}
				case *ast.ValueSpec:
					if t.Type != nil && isMap(t.Type) {
						for _, id := range t.Names {
							local[id.Name] = true
						}
					}
				}
				return true
			})
			var deferDepth []ast.Node
			ast.Inspect(fd.Body, func(x ast.Node) bool {
				switch t := x.(type) {
				case *ast.DeferStmt:
					deferDepth = append(deferDepth, t)
					ctx := "defer " + text(t.Call.Fun)
					ast.Inspect(t.Call, func(y ast.Node) bool {
						if ce, ok := y.(*ast.CallExpr); ok {
							if c := clockCall(ce); c != "" {
								clock = append(clock, fmt.Sprintf("(%s, %s, %s, %s)", coqString(n), coqString(funcName(fd)), coqString(c), coqString(ctx)))
							}
						}
						return true
					})
					return false
				case *ast.CallExpr:
					if c := clockCall(t); c != "" {
						clock = append(clock, fmt.Sprintf("(%s, %s, %s, %s)", coqString(n), coqString(funcName(fd)), coqString(c), coqString("statement")))
					} else if localZoneCall(t) {
						clock = append(clock, fmt.Sprintf("(%s, %s, %s, %s)", coqString(n), coqString(funcName(fd)), coqString(".Local()"), coqString("statement")))
					}
				case *ast.SelectorExpr:
					if id, ok := t.X.(*ast.Ident); ok && id.Name == "time" && t.Sel.Name == "Local" {
						clock = append(clock, fmt.Sprintf("(%s, %s, %s, %s)", coqString(n), coqString(funcName(fd)), coqString("time.Local"), coqString("statement")))
					}
				case *ast.RangeStmt:
					over := false
					switch v := t.X.(type) {
					case *ast.Ident:
						over = local[v.Name]
					case *ast.SelectorExpr:
						over = mapFields[v.Sel.Name]
					default:
						over = isMapValue(t.X)
					}
					if over {
						ranges = append(ranges, fmt.Sprintf("(%s, %s, %s)", coqString(n), coqString(funcName(fd)), coqString(text(t.X))))
					}
				}
				return true
			})
			_ = deferDepth
		}
	}
	// (c) package-level variables holding arbitrary-precision numbers (sdk.Int / sdk.Uint / sdk.Dec wrap a *big.Int, which
	// Unmarshal and the in-place big.Int operations write through): a struct copy of such a variable shares the number with
	// every application instance of the process, so one chain's state can leak into the next one's results
	var globals []string
	for _, n := range names {
		if strings.HasSuffix(n, ".pb.go") || strings.HasSuffix(n, ".pb.gw.go") {
			continue
		}
		for _, d := range files[n].Decls {
			gd, ok := d.(*ast.GenDecl)
			if !ok || gd.Tok != token.VAR {
				continue
			}
			for _, sp := range gd.Specs {
				vs, ok := sp.(*ast.ValueSpec)
				if !ok {
					continue
				}
				src := ""
				if vs.Type != nil {
					src += text(vs.Type) + " "
				}
				for _, v := range vs.Values {
					src += text(v) + " "
				}
				numeric := false
				for _, pat := range []string{"sdk.Int", "sdk.Uint", "sdk.Dec", "sdk.NewInt", "sdk.NewUint", "sdk.NewDec", "sdk.MustNewDec", "sdk.OneDec", "sdk.ZeroDec", "sdk.OneInt", "sdk.ZeroInt",
					"sdk.OneUint", "sdk.ZeroUint", "sdk.SmallestDec", "big.Int", "big.NewInt", "big.NewFloat", "big.Rat", "big.NewRat", "sdk.Coin", "sdk.NewCoin", "sdk.DecCoin"} {
					if strings.Contains(src, pat) {
						numeric = true
					}
				}
				if !numeric {
					continue
				}
				for _, id := range vs.Names {
					globals = append(globals, fmt.Sprintf("(%s, %s)", coqString(n), coqString(id.Name)))
				}
			}
		}
	}
	// (d) package-level variables that function bodies assign to: state that lives as long as the process, not as long as
	// the chain — what a block computes must not depend on what the process did before (a restarted node has done nothing)
	pkgVars := map[string]map[string]bool{} // package dir -> names
	for _, n := range names {
		dir := filepath.Dir(n)
		for _, d := range files[n].Decls {
			if gd, ok := d.(*ast.GenDecl); ok && gd.Tok == token.VAR {
				for _, sp := range gd.Specs {
					if vs, ok := sp.(*ast.ValueSpec); ok {
						for _, id := range vs.Names {
							if id.Name != "_" {
								if pkgVars[dir] == nil {
									pkgVars[dir] = map[string]bool{}
								}
								pkgVars[dir][id.Name] = true
							}
						}
					}
				}
			}
		}
	}
	var written []string
	seenW := map[string]bool{}
	for _, n := range names {
		if strings.HasSuffix(n, ".pb.go") || strings.HasSuffix(n, ".pb.gw.go") {
			continue
		}
		vars := pkgVars[filepath.Dir(n)]
		for _, d := range files[n].Decls {
			fd, ok := d.(*ast.FuncDecl)
			if !ok || fd.Body == nil {
				continue
			}
			isPkgVar := func(e ast.Expr) (string, bool) {
				for {
					switch t := e.(type) {
					case *ast.SelectorExpr:
						e = t.X
						continue
					case *ast.IndexExpr:
						e = t.X
						continue
					case *ast.StarExpr:
						e = t.X
						continue
					case *ast.ParenExpr:
						e = t.X
						continue
					case *ast.Ident:
						if !vars[t.Name] {
							return "", false
						}
						// resolved to a local declaration?
						if t.Obj != nil {
							if _, top := t.Obj.Decl.(*ast.ValueSpec); !top {
								return "", false
							}
							if vs, ok := t.Obj.Decl.(*ast.ValueSpec); ok && fd.Body.Pos() <= vs.Pos() && vs.End() <= fd.Body.End() {
								return "", false
							}
						}
						return t.Name, true
					}
					return "", false
				}
			}
			note := func(e ast.Expr) {
				if name, ok := isPkgVar(e); ok {
					k := n + "#" + funcName(fd) + "#" + name
					if !seenW[k] {
						seenW[k] = true
						written = append(written, fmt.Sprintf("(%s, %s, %s)", coqString(n), coqString(funcName(fd)), coqString(name)))
					}
				}
			}
			ast.Inspect(fd.Body, func(x ast.Node) bool {
				switch t := x.(type) {
				case *ast.AssignStmt:
					if t.Tok != token.DEFINE {
						for _, l := range t.Lhs {
							note(l)
						}
					}
				case *ast.IncDecStmt:
					note(t.X)
				}
				return true
			})
		}
	}
	body0 := fmt.Sprintf("Definition gen_written_globals : list (string * string * string) := [%s].\n", strings.Join(written, ";\n  "))
	body := body0 + fmt.Sprintf("Definition gen_numeric_globals : list (string * string) := [%s].\n", strings.Join(globals, ";\n  "))
	body += fmt.Sprintf("Definition gen_clock_sites : list (string * string * string * string) := [%s].\nDefinition gen_map_ranges : list (string * string * string) := [%s].\n",
		strings.Join(clock, ";\n  "), strings.Join(ranges, ";\n  "))
	return writeV(out, "Clock.v", body)
}

// clockCall recognises time.Now / time.Since / time.Until and any call into a package named rand.
func clockCall(ce *ast.CallExpr) string {
	se, ok := ce.Fun.(*ast.SelectorExpr)
	if !ok {
		return ""
	}
	id, ok := se.X.(*ast.Ident)
	if !ok {
		return ""
	}
	if id.Name == "time" && (se.Sel.Name == "Now" || se.Sel.Name == "Since" || se.Sel.Name == "Until") {
		return "time." + se.Sel.Name
	}
	// values that depend on the process environment (local time zone, environment variables, host)
	if id.Name == "time" && (se.Sel.Name == "Unix" || se.Sel.Name == "UnixMilli" || se.Sel.Name == "UnixMicro" || se.Sel.Name == "LoadLocation") {
		return "time." + se.Sel.Name
	}
	if id.Name == "os" && (se.Sel.Name == "Getenv" || se.Sel.Name == "LookupEnv" || se.Sel.Name == "Environ" || se.Sel.Name == "Hostname" || se.Sel.Name == "Getpid" || se.Sel.Name == "Getwd") {
		return "os." + se.Sel.Name
	}
	if id.Name == "runtime" && (se.Sel.Name == "NumCPU" || se.Sel.Name == "NumGoroutine" || se.Sel.Name == "GOMAXPROCS") {
		return "runtime." + se.Sel.Name
	}
	if id.Name == "rand" {
		return "rand." + se.Sel.Name
	}
	return ""
}

// localZoneCall: x.Local() on any expression (a time converted to the process-local zone)
func localZoneCall(ce *ast.CallExpr) bool {
	se, ok := ce.Fun.(*ast.SelectorExpr)
	return ok && se.Sel.Name == "Local" && len(ce.Args) == 0
}
