// Package extract regenerates coq/Gen/*.v from /repo's source with go/ast pattern matchers.
package extract

import (
	"bytes"
	"fmt"
	"go/ast"
	"go/parser"
	"go/printer"
	"go/token"
	"os"
	"path/filepath"
	"sort"
	"strconv"
	"strings"
)

type Site struct {
	File string // relative to repo
	Func string // enclosing function (Recv.Name)
	Call string // called selector
}

func goFiles(repo string, dirs []string) []string {
	var out []string
	for _, d := range dirs {
		_ = filepath.Walk(filepath.Join(repo, d), func(p string, info os.FileInfo, err error) error {
			if err != nil || info.IsDir() {
				return nil
			}
			if strings.HasSuffix(p, ".go") && !strings.HasSuffix(p, "_test.go") && !strings.HasSuffix(p, ".pb.go") && !strings.HasSuffix(p, ".pb.gw.go") &&
				!strings.Contains(p, "/mocks/") && !strings.Contains(p, "/simulation/") && !strings.Contains(p, "/test/") && !strings.Contains(p, "/testutil/") && !strings.HasSuffix(p, "test_helpers.go") {
				out = append(out, p)
			}
			return nil
		})
	}
	sort.Strings(out)
	return out
}

func hasVerifTag(f *ast.File) bool {
	for _, cg := range f.Comments {
		for _, c := range cg.List {
			if strings.HasPrefix(c.Text, "//go:build") && strings.Contains(c.Text, "verif") {
				return true
			}
		}
	}
	return false
}

func funcName(fd *ast.FuncDecl) string {
	if fd.Recv != nil && len(fd.Recv.List) > 0 {
		t := fd.Recv.List[0].Type
		if s, ok := t.(*ast.StarExpr); ok {
			t = s.X
		}
		if id, ok := t.(*ast.Ident); ok {
			return id.Name + "." + fd.Name.Name
		}
	}
	return fd.Name.Name
}

// CallSites finds calls x.Name(...) / Name(...) for the given names.
func CallSites(repo string, dirs []string, names map[string]bool) []Site {
	var sites []Site
	fset := token.NewFileSet()
	for _, p := range goFiles(repo, dirs) {
		f, err := parser.ParseFile(fset, p, nil, parser.ParseComments)
		if err != nil {
			continue
		}
		if hasVerifTag(f) {
			continue
		}
		rel, _ := filepath.Rel(repo, p)
		for _, d := range f.Decls {
			fd, ok := d.(*ast.FuncDecl)
			if !ok || fd.Body == nil {
				continue
			}
			ast.Inspect(fd.Body, func(n ast.Node) bool {
				ce, ok := n.(*ast.CallExpr)
				if !ok {
					return true
				}
				var nm string
				switch fn := ce.Fun.(type) {
				case *ast.SelectorExpr:
					nm = fn.Sel.Name
				case *ast.Ident:
					nm = fn.Name
				}
				if names[nm] {
					sites = append(sites, Site{rel, funcName(fd), nm})
				}
				return true
			})
		}
	}
	sort.Slice(sites, func(i, j int) bool {
		if sites[i].File != sites[j].File {
			return sites[i].File < sites[j].File
		}
		if sites[i].Func != sites[j].Func {
			return sites[i].Func < sites[j].Func
		}
		return sites[i].Call < sites[j].Call
	})
	return sites
}

// StringConsts returns the string/number literal constants declared in a file.
func Consts(repo, file string) map[string]string {
	out := map[string]string{}
	fset := token.NewFileSet()
	f, err := parser.ParseFile(fset, filepath.Join(repo, file), nil, 0)
	if err != nil {
		return out
	}
	for _, d := range f.Decls {
		gd, ok := d.(*ast.GenDecl)
		if !ok || (gd.Tok != token.CONST && gd.Tok != token.VAR) {
			continue
		}
		for _, s := range gd.Specs {
			vs := s.(*ast.ValueSpec)
			for i, n := range vs.Names {
				if i < len(vs.Values) {
					if bl, ok := vs.Values[i].(*ast.BasicLit); ok {
						v := bl.Value
						if bl.Kind == token.STRING {
							v, _ = strconv.Unquote(v)
						}
						out[n.Name] = v
					}
				}
			}
		}
	}
	return out
}

func coqString(s string) string { return "\"" + strings.ReplaceAll(s, "\"", "\"\"") + "\"" }

func writeV(out, name, body string) error {
	src := "(* GENERATED from /repo by harness/extract on every run; do not edit. *)\nFrom Coq Require Import ZArith List String.\nImport ListNotations.\nLocal Open Scope string_scope.\n" + body
	return os.WriteFile(filepath.Join(out, name), []byte(src), 0o644)
}

// Run dispatches one extractor.
func Run(kind, repo, out string) error {
	switch kind {
	case "consts":
		return genConsts(repo, out)
	case "mintsites":
		return genMintSites(repo, out)
	case "auth":
		return genAuth(repo, out)
	case "fees":
		return genFees(repo, out)
	case "clock":
		return genClock(repo, out)
	}
	return fmt.Errorf("unknown extractor %s", kind)
}

func numOr(s string) string {
	if _, err := strconv.ParseFloat(s, 64); err != nil || s == "" {
		return "(-1)"
	}
	if strings.ContainsAny(s, ".eE") {
		return "(-1)"
	}
	return s
}

func genConsts(repo, out string) error {
	dk := Consts(repo, "x/dispensation/types/keys.go")
	var b strings.Builder
	fmt.Fprintf(&b, "Definition gen_max_mint : Z := %s%%Z.\n", numOr(dk["MaxMintAmount"]))
	fmt.Fprintf(&b, "Definition gen_mint_per_block : Z := %s%%Z.\n", numOr(dk["MintAmountPerBlock"]))
	fmt.Fprintf(&b, "Definition gen_eco_pool : string := %s.\n", coqString(dk["EcoPool"]))
	// how often the dispensation module is listed in SetOrderBeginBlockers
	fmt.Fprintf(&b, "Definition gen_dispensation_begin_blockers : Z := %d%%Z.\n", countOrder(repo, "SetOrderBeginBlockers", []string{"disptypes.ModuleName", "dispensation.ModuleName"}))
	// oracle consensus threshold: the constant and whether app.go wires it into the keeper
	oc := Consts(repo, "x/oracle/types/prophecy.go")
	thr := -1
	if f, err := strconv.ParseFloat(oc["DefaultConsensusNeeded"], 64); err == nil {
		thr = int(f*1000 + 0.5)
	}
	fmt.Fprintf(&b, "Definition gen_consensus_needed_times_1000 : Z := %d%%Z.\n", thr)
	appSrc, _ := os.ReadFile(filepath.Join(repo, "app/app.go"))
	wired := 0
	if strings.Contains(string(appSrc), "oracletypes.DefaultConsensusNeeded") {
		wired = 1
	}
	fmt.Fprintf(&b, "Definition gen_oracle_keeper_uses_default_threshold : Z := %d%%Z.\n", wired)
	// the relayer's confirmation depth, and the order of the externally visible actions of one iteration of its scanning loop
	rc := Consts(repo, "cmd/ebrelayer/relayer/ethereum.go")
	fmt.Fprintf(&b, "Definition gen_trailing_blocks : Z := %s%%Z.\n", numOr(rc["trailingBlocks"]))
	var order []string
	for _, c := range loopCalls(repo) {
		order = append(order, coqString(c))
	}
	fmt.Fprintf(&b, "Definition gen_relayer_loop_actions : list string := [%s].\n", strings.Join(order, "; "))
	// every LevelDB access of the relayer package: (file, function, Get / Put / Delete, key expression)
	fmt.Fprintf(&b, "Definition gen_relayer_db_accesses : list (string * string * string * string) := [%s].\n", strings.Join(dbAccesses(repo), ";\n  "))
	return writeV(out, "Consts.v", b.String())
}

// countOrder counts arguments (as source text) of app.mm.<method>(...) equal to one of the given texts.
func countOrder(repo, method string, texts []string) int {
	fset := token.NewFileSet()
	f, err := parser.ParseFile(fset, filepath.Join(repo, "app/app.go"), nil, 0)
	if err != nil {
		return -1
	}
	n := 0
	ast.Inspect(f, func(x ast.Node) bool {
		ce, ok := x.(*ast.CallExpr)
		if !ok {
			return true
		}
		se, ok := ce.Fun.(*ast.SelectorExpr)
		if !ok || se.Sel.Name != method {
			return true
		}
		for _, a := range ce.Args {
			if s, ok := a.(*ast.SelectorExpr); ok {
				if id, ok := s.X.(*ast.Ident); ok {
					t := id.Name + "." + s.Sel.Name
					for _, want := range texts {
						if t == want {
							n++
						}
					}
				}
			}
		}
		return true
	})
	return n
}

func genMintSites(repo, out string) error {
	sites := CallSites(repo, []string{"x", "app"}, map[string]bool{"MintCoins": true})
	var items []string
	for _, s := range sites {
		items = append(items, fmt.Sprintf("(%s, %s)", coqString(s.File), coqString(s.Func)))
	}
	ctl := CallSites(repo, []string{"x", "app"}, map[string]bool{"SetMintController": true})
	var citems []string
	for _, s := range ctl {
		citems = append(citems, fmt.Sprintf("(%s, %s)", coqString(s.File), coqString(s.Func)))
	}
	body := fmt.Sprintf("Definition gen_mint_sites : list (string * string) := [%s].\nDefinition gen_controller_writers : list (string * string) := [%s].\n",
		strings.Join(items, ";\n  "), strings.Join(citems, ";\n  "))
	return writeV(out, "MintSites.v", body)
}

// dbAccesses lists every call x.DB.Get / x.DB.Put / x.DB.Delete (and db.Get / db.Put / db.Delete) in the non-test files of
// cmd/ebrelayer/relayer with the source text of its key argument: which listener reads and writes which cursor.
func dbAccesses(repo string) []string {
	dir := filepath.Join(repo, "cmd/ebrelayer/relayer")
	ents, err := os.ReadDir(dir)
	if err != nil {
		return nil
	}
	var out []string
	for _, en := range ents {
		if !strings.HasSuffix(en.Name(), ".go") || strings.HasSuffix(en.Name(), "_test.go") {
			continue
		}
		fset := token.NewFileSet()
		f, err := parser.ParseFile(fset, filepath.Join(dir, en.Name()), nil, parser.ParseComments)
		if err != nil || hasVerifTag(f) {
			continue
		}
		for _, d := range f.Decls {
			fd, ok := d.(*ast.FuncDecl)
			if !ok || fd.Body == nil {
				continue
			}
			ast.Inspect(fd.Body, func(n ast.Node) bool {
				ce, ok := n.(*ast.CallExpr)
				if !ok || len(ce.Args) == 0 {
					return true
				}
				se, ok := ce.Fun.(*ast.SelectorExpr)
				if !ok || (se.Sel.Name != "Get" && se.Sel.Name != "Put" && se.Sel.Name != "Delete") {
					return true
				}
				recv := ""
				switch x := se.X.(type) {
				case *ast.SelectorExpr:
					recv = x.Sel.Name
				case *ast.Ident:
					recv = x.Name
				}
				if recv != "DB" && recv != "db" {
					return true
				}
				var kb bytes.Buffer
				_ = printer.Fprint(&kb, fset, ce.Args[0])
				out = append(out, fmt.Sprintf("(%s, %s, %s, %s)", coqString(en.Name()), coqString(funcName(fd)), coqString(se.Sel.Name), coqString(kb.String())))
				return true
			})
		}
	}
	return out
}

// loopCalls lists, in source order, the calls of EthereumSub.Start that talk to the outside: the cursor read
// (DB.Get), the log query (FilterLogs), the submission (handleEthereumEvent) and the cursor write (DB.Put).
func loopCalls(repo string) []string {
	fset := token.NewFileSet()
	f, err := parser.ParseFile(fset, filepath.Join(repo, "cmd/ebrelayer/relayer/ethereum.go"), nil, 0)
	if err != nil {
		return nil
	}
	want := map[string]bool{"Get": true, "FilterLogs": true, "handleEthereumEvent": true, "Put": true, "Sleep": true}
	var out []string
	for _, d := range f.Decls {
		fd, ok := d.(*ast.FuncDecl)
		if !ok || fd.Name.Name != "Start" || fd.Body == nil {
			continue
		}
		ast.Inspect(fd.Body, func(n ast.Node) bool {
			ce, ok := n.(*ast.CallExpr)
			if !ok {
				return true
			}
			if se, ok := ce.Fun.(*ast.SelectorExpr); ok && want[se.Sel.Name] {
				out = append(out, se.Sel.Name)
			}
			return true
		})
	}
	return out
}
