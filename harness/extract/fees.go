package extract

import (
	"fmt"
	"go/ast"
	"go/parser"
	"go/token"
	"path/filepath"
	"strings"
)

// genFees extracts the structure of the fee cascade and of the commission decorator from app/ante.
func genFees(repo, out string) error {
	fset := token.NewFileSet()
	f, err := parser.ParseFile(fset, filepath.Join(repo, "app/ante/ante.go"), nil, 0)
	if err != nil {
		return err
	}
	var subs, ints []string
	usesMax, flattensFee := false, false
	for _, d := range f.Decls {
		fd, ok := d.(*ast.FuncDecl)
		if !ok || fd.Body == nil || funcName(fd) != "AdjustGasPriceDecorator.AnteHandle" {
			continue
		}
		ast.Inspect(fd.Body, func(n ast.Node) bool {
			ce, ok := n.(*ast.CallExpr)
			if !ok {
				return true
			}
			t := exprText(ce.Fun)
			switch t {
			case "strings.Contains":
				if len(ce.Args) == 2 {
					switch a := ce.Args[1].(type) {
					case *ast.BasicLit:
						subs = append(subs, strings.Trim(a.Value, "\""))
					case *ast.CallExpr:
						if len(a.Args) == 1 {
							subs = append(subs, exprText(a.Args[0]))
						}
					default:
						subs = append(subs, exprText(a))
					}
				}
			case "sdk.NewInt":
				if len(ce.Args) == 1 {
					if bl, ok := ce.Args[0].(*ast.BasicLit); ok {
						ints = append(ints, bl.Value)
					}
				}
			case "sdk.MaxInt":
				usesMax = true
			case "FlattenMsgs":
				flattensFee = true
			}
			return true
		})
	}
	f2, err := parser.ParseFile(fset, filepath.Join(repo, "app/ante/commission.go"), nil, 0)
	if err != nil {
		return err
	}
	flattensCommission := false
	var decs []string
	ast.Inspect(f2, func(n ast.Node) bool {
		ce, ok := n.(*ast.CallExpr)
		if !ok {
			return true
		}
		switch exprText(ce.Fun) {
		case "FlattenMsgs":
			flattensCommission = true
		case "sdk.NewDecWithPrec":
			if len(ce.Args) == 2 {
				a, ok1 := ce.Args[0].(*ast.BasicLit)
				b, ok2 := ce.Args[1].(*ast.BasicLit)
				if ok1 && ok2 {
					decs = append(decs, fmt.Sprintf("(%s, %s)%%Z", a.Value, b.Value))
				}
			}
		}
		return true
	})
	var ss []string
	for _, s := range subs {
		ss = append(ss, coqString(s))
	}
	b2z := func(b bool) int {
		if b {
			return 1
		}
		return 0
	}
	body := fmt.Sprintf("Definition gen_fee_substrings : list string := [%s].\nDefinition gen_fee_amounts : list Z := [%s]%%Z.\n"+
		"Definition gen_fee_takes_maximum : Z := %d%%Z.\nDefinition gen_fee_walks_msgexec : Z := %d%%Z.\nDefinition gen_commission_walks_msgexec : Z := %d%%Z.\n"+
		"Definition gen_commission_decs : list (Z * Z) := [%s].\n",
		strings.Join(ss, "; "), strings.Join(ints, "; "), b2z(usesMax), b2z(flattensFee), b2z(flattensCommission), strings.Join(decs, "; "))
	return writeV(out, "FeeTable.v", body)
}
