module sifverif

go 1.20

require (
	github.com/Sifchain/sifnode v0.0.0
	github.com/cosmos/cosmos-sdk v0.45.16
	github.com/cosmos/ibc-go/v4 v4.5.1
	github.com/ethereum/go-ethereum v1.10.17
	github.com/syndtr/goleveldb v1.0.1-0.20210819022825-2ae1ddf74ef7
	github.com/tendermint/tendermint v0.34.27
	github.com/tendermint/tm-db v0.6.7
	go.uber.org/zap v1.23.0
)

require (
	cosmossdk.io/api v0.2.6 // indirect
	cosmossdk.io/core v0.5.1 // indirect
	cosmossdk.io/depinject v1.0.0-alpha.3 // indirect
	filippo.io/edwards25519 v1.0.0-rc.1 // indirect
	github.com/99designs/keyring v1.2.1 // indirect
	github.com/ChainSafe/go-schnorrkel v1.0.0 // indirect
	github.com/armon/go-metrics v0.4.1 // indirect
	github.com/beorn7/perks v1.0.1 // indirect
	github.com/bgentry/speakeasy v0.1.1-0.20220910012023-760eaf8b6816 // indirect
	github.com/btcsuite/btcd/btcec/v2 v2.3.2 // indirect
	github.com/cespare/xxhash/v2 v2.1.2 // indirect
	github.com/confio/ics23/go v0.9.1 // indirect
	github.com/cosmos/btcutil v1.0.4 // indirect
	github.com/cosmos/cosmos-db v0.0.0-20221226095112-f3c38ecb5e32 // indirect
	github.com/cosmos/cosmos-proto v1.0.0-beta.1 // indirect
	github.com/cosmos/go-bip39 v1.0.0 // indirect
	github.com/cosmos/iavl v0.19.5 // indirect
	github.com/davecgh/go-spew v1.1.1 // indirect
	github.com/deckarep/golang-set v1.8.0 // indirect
	github.com/decred/dcrd/dcrec/secp256k1/v4 v4.0.1 // indirect
	github.com/dvsekhvalnov/jose2go v1.5.0 // indirect
	github.com/felixge/httpsnoop v1.0.1 // indirect
	github.com/fsnotify/fsnotify v1.6.0 // indirect
	github.com/go-kit/kit v0.12.0 // indirect
	github.com/go-kit/log v0.2.1 // indirect
	github.com/go-logfmt/logfmt v0.5.1 // indirect
	github.com/go-stack/stack v1.8.0 // indirect
	github.com/godbus/dbus v0.0.0-20190726142602-4481cbc300e2 // indirect
	github.com/gogo/gateway v1.1.0 // indirect
	github.com/gogo/protobuf v1.3.3 // indirect
	github.com/golang/protobuf v1.5.2 // indirect
	github.com/golang/snappy v0.0.4 // indirect
	github.com/google/btree v1.1.2 // indirect
	github.com/google/uuid v1.3.0 // indirect
	github.com/gorilla/handlers v1.5.1 // indirect
	github.com/gorilla/mux v1.8.0 // indirect
	github.com/gorilla/websocket v1.5.0 // indirect
	github.com/grpc-ecosystem/go-grpc-middleware v1.3.0 // indirect
	github.com/grpc-ecosystem/grpc-gateway v1.16.0 // indirect
	github.com/gsterjov/go-libsecret v0.0.0-20161001094733-a6f4afe4910c // indirect
	github.com/gtank/merlin v0.1.1 // indirect
	github.com/gtank/ristretto255 v0.1.2 // indirect
	github.com/hashicorp/go-immutable-radix v1.3.1 // indirect
	github.com/hashicorp/golang-lru v0.5.5-0.20210104140557-80c98217689d // indirect
	github.com/hashicorp/hcl v1.0.0 // indirect
	github.com/hdevalence/ed25519consensus v0.0.0-20220222234857-c00d1f31bab3 // indirect
	github.com/joho/godotenv v1.3.0 // indirect
	github.com/libp2p/go-buffer-pool v0.1.0 // indirect
	github.com/magiconair/properties v1.8.7 // indirect
	github.com/mattn/go-isatty v0.0.17 // indirect
	github.com/matttproud/golang_protobuf_extensions v1.0.2-0.20181231171920-c182affec369 // indirect
	github.com/miguelmota/go-solidity-sha3 v0.1.1 // indirect
	github.com/mimoo/StrobeGo v0.0.0-20210601165009-122bf33a46e0 // indirect
	github.com/mitchellh/mapstructure v1.5.0 // indirect
	github.com/mtibben/percent v0.2.1 // indirect
	github.com/pelletier/go-toml/v2 v2.0.6 // indirect
	github.com/pkg/errors v0.9.1 // indirect
	github.com/pmezard/go-difflib v1.0.0 // indirect
	github.com/prometheus/client_golang v1.14.0 // indirect
	github.com/prometheus/client_model v0.3.0 // indirect
	github.com/prometheus/common v0.37.0 // indirect
	github.com/prometheus/procfs v0.8.0 // indirect
	github.com/rakyll/statik v0.1.7 // indirect
	github.com/rcrowley/go-metrics v0.0.0-20201227073835-cf1acfcdf475 // indirect
	github.com/regen-network/cosmos-proto v0.3.1 // indirect
	github.com/rjeczalik/notify v0.9.2 // indirect
	github.com/shirou/gopsutil v3.21.4-0.20210419000835-c7a38de76ee5+incompatible // indirect
	github.com/spf13/afero v1.9.3 // indirect
	github.com/spf13/cast v1.5.0 // indirect
	github.com/spf13/cobra v1.6.1 // indirect
	github.com/spf13/jwalterweatherman v1.1.0 // indirect
	github.com/spf13/pflag v1.0.5 // indirect
	github.com/spf13/viper v1.15.0 // indirect
	github.com/stretchr/testify v1.8.2 // indirect
	github.com/subosito/gotenv v1.4.2 // indirect
	github.com/tendermint/go-amino v0.16.0 // indirect
	github.com/tidwall/btree v1.5.0 // indirect
	github.com/tklauser/go-sysconf v0.3.5 // indirect
	github.com/tklauser/numcpus v0.2.2 // indirect
	github.com/vishalkuo/bimap v0.0.0-20180703190407-09cff2814645 // indirect
	go.uber.org/atomic v1.10.0 // indirect
	go.uber.org/multierr v1.8.0 // indirect
	golang.org/x/crypto v0.5.0 // indirect
	golang.org/x/exp v0.0.0-20221019170559-20944726eadf // indirect
	golang.org/x/net v0.8.0 // indirect
	golang.org/x/sys v0.6.0 // indirect
	golang.org/x/term v0.6.0 // indirect
	golang.org/x/text v0.8.0 // indirect
	google.golang.org/genproto v0.0.0-20230125152338-dcaf20b6aeaa // indirect
	google.golang.org/grpc v1.52.3 // indirect
	google.golang.org/protobuf v1.28.2-0.20220831092852-f930b1dc76e8 // indirect
	gopkg.in/ini.v1 v1.67.0 // indirect
	gopkg.in/yaml.v2 v2.4.0 // indirect
	gopkg.in/yaml.v3 v3.0.1 // indirect
)

replace github.com/Sifchain/sifnode => /repo

replace (
	github.com/confio/ics23/go => github.com/cosmos/cosmos-sdk/ics23/go v0.8.0
	github.com/gogo/protobuf => github.com/regen-network/protobuf v1.3.3-alpha.regen.1
	github.com/libp2p/go-buffer-pool => github.com/libp2p/go-buffer-pool v0.1.0
	github.com/syndtr/goleveldb => github.com/syndtr/goleveldb v1.0.1-0.20210819022825-2ae1ddf74ef7
	github.com/tendermint/tendermint => github.com/cometbft/cometbft v0.34.29
	google.golang.org/grpc => google.golang.org/grpc v1.33.2
)
