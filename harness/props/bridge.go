package props

import (
	"fmt"
	"math/big"
	"sort"
	"strings"

	ethbridgetypes "github.com/Sifchain/sifnode/x/ethbridge/types"
	sdk "github.com/cosmos/cosmos-sdk/types"
	stakingtypes "github.com/cosmos/cosmos-sdk/x/staking/types"

	"sifverif/chain"
	"sifverif/env"
	"sifverif/report"
)

// BStep is one observed bridge transaction.
type BStep struct {
	ID     int
	Kind   int // 1 claim 2 lock/burn 3 whitelist 4 ceth receiver 5 rescue
	A      []int64
	Amt    *big.Int
	Ceth   *big.Int
	Burn   bool
	Add    bool
	Fee    *big.Int
	OK     bool
	Pre    env.BridgeState
	Post   env.BridgeState
	Desc   map[string]interface{}
	HistID int
	StepNo int
	Env    *env.BridgeEnv
	Cont   map[int64]env.Content
	Events []string
}

func (s BStep) Enc() string {
	e := &env.Enc{}
	e.I(int64(s.ID)).I(int64(s.Kind))
	switch s.Kind {
	case 1:
		e.I(s.A[0]).I(s.A[1]).I(s.A[2])
	case 2:
		e.B(s.Burn).I(s.A[0]).I(s.A[1]).Z(s.Amt).I(s.A[2]).Z(s.Ceth)
	case 3:
		e.I(s.A[0]).I(s.A[1]).B(s.Add)
	case 4:
		e.I(s.A[0]).I(s.A[1])
	case 5:
		e.I(s.A[0]).I(s.A[1]).Z(s.Amt)
	case 6:
		e.I(s.A[0]).I(s.A[1]).I(s.A[2])
	case 7:
		e.B(s.Add).I(s.A[0]).Len(len(s.A) - 1)
		for _, x := range s.A[1:] {
			e.I(x)
		}
	}
	e.Z(s.Fee).B(s.OK).Bridge(s.Pre, s.Cont).Bridge(s.Post, s.Cont)
	return e.Coq()
}

type BHistory struct {
	ID    int
	Env   *env.BridgeEnv
	Steps []BStep
	Desc  map[string]interface{}
}

func (h BHistory) replay(upto int) map[string]interface{} {
	var st []interface{}
	for _, s := range h.Steps {
		if s.StepNo > upto {
			break
		}
		d := map[string]interface{}{"step": s.StepNo, "ok": s.OK}
		for k, v := range s.Desc {
			d[k] = v
		}
		st = append(st, d)
	}
	return map[string]interface{}{"setup": h.Desc, "steps": st}
}

type forcedStep struct {
	kind    int // 1 claim, 3 whitelist edit
	val     int
	ev      int
	variant int
	add     bool
}

type BOpts struct {
	Histories int
	Steps     int
	ClaimW    int // weights
	LockW     int
	AdminW    int
	Pause     bool
}

var ethAddrs = []string{"0x627306090abaB3A6e1400e9345bC60c78a8BEf57", "0xf17f52151EbEF6C7334FAD080c5704D77216b732", "0xC5fdf4076b8F3A5357c5E395ab970B5B54098Fef", "0x821aEa9a577a9b44299B9c15c88cf3087F3b5544"}

// spellEth: another spelling of the same Ethereum address (all accepted by common.IsHexAddress / HexToAddress)
func spellEth(rng *chain.Rng, a string) (string, string) {
	switch rng.Intn(8) {
	case 0:
		return strings.ToLower(a), "lower-case"
	case 1:
		return "0x" + strings.ToUpper(a[2:]), "upper-case"
	case 2:
		return a[2:], "no-0x-prefix"
	}
	return a, "checksummed"
}

func copyContents(m map[int64]env.Content) map[int64]env.Content {
	o := map[int64]env.Content{}
	for k, v := range m {
		o[k] = v
	}
	return o
}

// RunBridgeHistories drives claims / lock / burn / admin messages on the real app.
func RunBridgeHistories(c Ctx, rep *report.Report, rng *chain.Rng, o BOpts, nextID *int) []BHistory {
	var hs []BHistory
	for hI := 0; hI < o.Histories; hI++ {
		nv := 1 + rng.Intn(6)
		powers := make([]int64, nv)
		wl := make([]bool, nv)
		total := int64(0)
		for i := range powers {
			switch rng.Intn(6) {
			case 0:
				powers[i] = 0 // never creates a validator
			case 1:
				powers[i] = 10 // ties
			default:
				powers[i] = int64(1 + rng.Intn(100))
			}
			wl[i] = rng.Intn(5) != 0
			total += powers[i]
		}
		if rng.Intn(3) == 0 && nv >= 3 { // boundary: 69 / 70 / 71 %
			powers[0], powers[1], powers[2] = int64(69+rng.Intn(3)), 30-int64(rng.Intn(2)), 1
			wl[0], wl[1], wl[2] = true, true, true
			for i := 3; i < nv; i++ {
				powers[i] = 0
			}
		}
		if hI%4 == 3 {
			powers, wl, nv = []int64{35, 30, 20, 15}, []bool{true, true, true, true}, 4
		}
		// templates about a validator that stands on the whitelist twice (MsgUpdateWhiteListValidator "add" appends without
		// looking; a genesis may repeat an entry): it counts once, and one removal takes it off the list
		dupGenesis := false
		if hI%8 == 1 {
			powers, wl, nv = []int64{60, 20, 20}, []bool{true, true, true}, 3
		}
		if hI%8 == 5 {
			powers, wl, nv = []int64{20, 20, 60}, []bool{true, true, true}, 3
			dupGenesis = true
			env.BridgeWhitelistTweak = func(l []string) []string { return append(l, l[len(l)-1]) }
		}
		// a third of the chains start from a genesis that is paused and carries a blacklist (and, as an export without a fee
		// receiver writes it, an empty receiver): what the genesis says must be in force from the first block
		gPaused, gBlack := false, []string(nil)
		if rng.Intn(3) == 0 {
			gPaused = rng.Intn(2) == 0
			gBlack = []string{ethAddrs[3]}
			if rng.Intn(2) == 0 {
				gBlack = append(gBlack, ethAddrs[1])
			}
			env.BridgeGenesisTweak = func(g *ethbridgetypes.GenesisState) {
				g.Pause = &ethbridgetypes.Pause{IsPaused: gPaused}
				g.Blacklist = gBlack
			}
		}
		e := env.NewBridge(powers, wl, 3)
		env.BridgeGenesisTweak = nil
		env.BridgeWhitelistTweak = nil
		h := BHistory{ID: hI, Env: e, Desc: map[string]interface{}{"seed": c.Seed, "history": hI, "powers": powers, "whitelisted": wl, "genesis_paused": gPaused, "genesis_blacklist": gBlack,
			"genesis_whitelist_repeats_last_validator": dupGenesis}}
		{
			s0 := e.Snapshot()
			var wantB, wantP []int64
			for _, a := range e.Genesis.Blacklist {
				wantB = append(wantB, e.EthID(a))
			}
			for _, t := range e.Genesis.PeggyTokens {
				wantP = append(wantP, env.SymbolID(t))
			}
			asSet := func(l []int64) string {
				m := map[int64]bool{}
				for _, x := range l {
					m[x] = true
				}
				var o []int64
				for x := range m {
					o = append(o, x)
				}
				sort.Slice(o, func(i, j int) bool { return o[i] < o[j] })
				return fmt.Sprint(o)
			}
			if s0.Paused != gPaused || asSet(s0.Blacklist) != asSet(wantB) || asSet(s0.Peggy) != asSet(wantP) {
				rep.Violate("bridge/genesis-not-in-force", fmt.Sprintf("the genesis says paused=%v, blacklist %v, pegged tokens %v; the chain started from it has paused=%v, blacklist %s, pegged tokens %s",
					gPaused, gBlack, e.Genesis.PeggyTokens, s0.Paused, asSet(s0.Blacklist), asSet(s0.Peggy)), h.replay(0))
			}
			rep.Count(fmt.Sprintf("genesis.paused=%v.blacklist=%d", gPaused, len(gBlack)))
		}
		if rng.Intn(3) == 0 {
			m := ethbridgetypes.NewMsgUpdateCethReceiverAccount(e.OracleAdm.Addr, e.Users[2].Addr)
			mustOK(e.Tx(e.OracleAdm, &m), "ceth receiver")
			h.Desc["ceth_receiver"] = "user2"
		}
		if rng.Intn(4) == 0 {
			bl := &ethbridgetypes.MsgSetBlacklist{From: e.Admin.Addr.String(), Addresses: []string{ethAddrs[2]}}
			mustOK(e.Tx(e.Admin, bl), "blacklist")
			h.Desc["blacklisted"] = ethAddrs[2]
		}
		e.EthID(ethAddrs[2])
		nEvents := 1 + rng.Intn(3)
		// template (every 4th history): consensus reached by a shrinking whitelist while a conflicting claim is delivered:
		// v0, v1 claim content A (65%), v3 (never claimed) leaves the whitelist, v2 delivers content B -> A is final
		var forced []forcedStep
		if hI%4 == 3 {
			forced = []forcedStep{{kind: 1, val: 0, ev: 7, variant: 0}, {kind: 1, val: 1, ev: 7, variant: 0}, {kind: 3, val: 3, add: false}, {kind: 1, val: 2, ev: 7, variant: 1 + rng.Intn(2)}, {kind: 1, val: 2, ev: 7, variant: 0}}
		}
		if hI%8 == 1 { // v0 (60%) is added a second time and then claims alone: 60% is not 70%
			forced = []forcedStep{{kind: 3, val: 0, add: true}, {kind: 1, val: 0, ev: 7, variant: 0}, {kind: 1, val: 1, ev: 7, variant: 1}}
		}
		if hI%8 == 5 { // v2 (60%, listed twice by the genesis) is removed and then claims; v0 and v1 (all that is left) agree
			forced = []forcedStep{{kind: 3, val: 2, add: false}, {kind: 1, val: 2, ev: 7, variant: 1}, {kind: 1, val: 0, ev: 7, variant: 0}, {kind: 1, val: 1, ev: 7, variant: 0}}
		}
		for st := 0; st < o.Steps; st++ {
			var fs *forcedStep
			if st < len(forced) {
				fs = &forced[st]
			}
			if o.Pause && rng.Intn(12) == 0 {
				p := &ethbridgetypes.MsgPause{Signer: e.Admin.Addr.String(), IsPaused: rng.Intn(2) == 0}
				mustOK(e.Tx(e.Admin, p), "pause")
				rep.Count("admin.pause-toggle")
			}
			if fs == nil && rng.Intn(9) == 0 {
				// stake moves in the middle of a block: a validator's operator undelegates part of its own stake (the validator's
				// tokens drop at once; the staking module's power index and "last validator power" only follow at EndBlock)
				vi := rng.Intn(nv)
				if v, found := e.App.StakingKeeper.GetValidator(e.Ctx(), e.ValAddr(vi)); found && v.Tokens.IsPositive() {
					part := v.Tokens.MulRaw(int64(10 + rng.Intn(60))).QuoRaw(100)
					if part.IsPositive() {
						um := stakingtypes.NewMsgUndelegate(e.Vals[vi].Addr, e.ValAddr(vi), sdk.NewCoin(e.BondDenom, part))
						r := e.Tx(e.Vals[vi], um)
						rep.Count("staking.undelegate-inside-block." + okStr(r.Code == 0))
					}
				}
			}
			w := rng.Intn(o.ClaimW + o.LockW + o.AdminW)
			if fs != nil {
				if fs.kind == 1 {
					w = 0
				} else {
					w = o.ClaimW + o.LockW
				}
			}
			var bs BStep
			var signer chain.Account
			var msg sdk.Msg
			switch {
			case w < o.ClaimW:
				vi := rng.Intn(nv)
				ev := rng.Intn(nEvents + st/5)
				variant := rng.Intn(3)
				if rng.Intn(3) != 0 {
					variant = 0
				}
				if fs != nil {
					vi, ev, variant = fs.val, fs.ev, fs.variant
				}
				recv := e.Users[ev%2].Addr
				amount := new(big.Int).Mul(big.NewInt(int64(10+ev)), chain.E(18))
				// locks of Ethereum assets (credited as "c" + symbol — also when the asset's own symbol begins with that letter:
				// "comp", or a token that calls itself "ceth"), and burns of a Sifchain-native asset (credited in the symbol itself)
				// ... a burn may name any denom the relayer's symbol table maps to, IBC denoms with their upper-case hash included:
				// it is credited letter for letter
				// (a lock claim may also carry the ERC-20 symbol as it is, upper case: nothing in the chain constrains the case)
				symbol := []string{"eth", "USDT", "dash", "usdc", "comp", "ibc/FEEDFACE", "ceth"}[ev%7]
				ctype := ethbridgetypes.ClaimType_CLAIM_TYPE_LOCK
				if ev%7 == 2 || ev%7 == 5 {
					ctype = ethbridgetypes.ClaimType_CLAIM_TYPE_BURN
				}
				switch variant {
				case 1:
					amount = new(big.Int).Add(amount, big.NewInt(1)) // conflicting content
				case 2:
					recv = e.ModuleAddr("clp") // blocked recipient
				}
				if rng.Intn(25) == 0 {
					amount = big.NewInt(0)
				}
				token := "0x0000000000000000000000000000000000000000"
				if symbol != "eth" {
					token = "0x345cA3e014Aaf5dcA488057592ee47305D9B3e10"
				}
				claim := ethbridgetypes.NewEthBridgeClaim(1, ethbridgetypes.NewEthereumAddress("0x30753E4A8aad7F8597332E813735Def5dD395028"), int64(ev+1), symbol,
					ethbridgetypes.NewEthereumAddress(token), ethbridgetypes.NewEthereumAddress(ethAddrs[0]), recv, e.ValAddr(vi), sdk.NewIntFromBigInt(amount), ctype)
				pid, cid, _ := e.RegisterClaim(claim)
				kind := 1
				if fs == nil && rng.Intn(14) == 0 {
					// the validator's own address in the all-upper-case bech32 spelling (bech32 accepts it, the signer is the same key)
					claim.ValidatorAddress = strings.ToUpper(claim.ValidatorAddress)
					kind = 6
				}
				m := ethbridgetypes.NewMsgCreateEthBridgeClaim(claim)
				msg, signer = &m, e.Vals[vi]
				bs = BStep{Kind: kind, A: []int64{pid, e.AcctID[signer.Addr.String()], cid},
					Desc: map[string]interface{}{"type": "CreateEthBridgeClaim", "validator": vi, "event_nonce": ev + 1, "symbol": symbol, "amount": amount.String(),
						"receiver": recv.String(), "claim_type": ctype.String()}}
			case w < o.ClaimW+o.LockW:
				u := e.Users[rng.Intn(2)]
				burn := rng.Intn(2) == 0
				// every denomination a lock claim may have credited must be burnable and not lockable thereafter
				sym := []string{"ceth", "cusdc", "dash", "rowan", "cUSDT", "ccomp", "cceth"}[rng.Intn(7)]
				amount := RandAmount(rng, 24)
				if rng.Intn(10) == 0 {
					amount = new(big.Int).Mul(big.NewInt(2), chain.E(30)) // more than the sender has
				}
				ceth := new(big.Int).Add(big.NewInt(60000000000*393000), RandAmount(rng, 10))
				eth := ethAddrs[rng.Intn(len(ethAddrs))]
				spelled, spelling := spellEth(rng, ethbridgetypes.NewEthereumAddress(eth).String())
				if burn {
					m := ethbridgetypes.NewMsgBurn(1, u.Addr, ethbridgetypes.NewEthereumAddress(eth), sdk.NewIntFromBigInt(amount), sym, sdk.NewIntFromBigInt(ceth))
					m.EthereumReceiver = spelled
					msg = &m
				} else {
					m := ethbridgetypes.NewMsgLock(1, u.Addr, ethbridgetypes.NewEthereumAddress(eth), sdk.NewIntFromBigInt(amount), sym, sdk.NewIntFromBigInt(ceth))
					m.EthereumReceiver = spelled
					msg = &m
				}
				rep.Count("lockburn.receiver-spelling." + spelling)
				signer = u
				bs = BStep{Kind: 2, Burn: burn, A: []int64{e.AcctID[u.Addr.String()], e.EthID(ethbridgetypes.NewEthereumAddress(eth).String()), env.SymbolID(sym)}, Amt: amount, Ceth: ceth,
					Desc: map[string]interface{}{"type": map[bool]string{true: "Burn", false: "Lock"}[burn], "sender": u.Addr.String(), "symbol": sym, "amount": amount.String(),
						"ceth_amount": ceth.String(), "eth_receiver": spelled}}
			default:
				pick := rng.Intn(6)
				if fs != nil {
					pick = 0
				}
				switch pick {
				case 4, 5:
					// the blacklist is replaced: any subset of the addresses, in any order, entries repeated, in any spelling;
					// lists that overlap the stored one are the interesting ones
					sg := e.Admin
					if rng.Intn(5) == 0 {
						sg = e.Users[1]
					}
					var list []string
					ids := []int64{e.AcctID[sg.Addr.String()]}
					for _, k := range rng.Perm(len(ethAddrs)) {
						if rng.Intn(2) == 0 {
							sp, _ := spellEth(rng, ethAddrs[k])
							list = append(list, sp)
							ids = append(ids, e.EthID(ethAddrs[k]))
							if rng.Intn(6) == 0 {
								list = append(list, sp)
								ids = append(ids, e.EthID(ethAddrs[k]))
							}
						}
					}
					m := &ethbridgetypes.MsgSetBlacklist{From: sg.Addr.String(), Addresses: list}
					msg, signer = m, sg
					bs = BStep{Kind: 7, Add: sg.Addr.Equals(e.Admin.Addr), A: ids,
						Desc: map[string]interface{}{"type": "SetBlacklist", "signer": sg.Name, "addresses": list}}
				case 0, 1:
					vi := rng.Intn(nv)
					add := rng.Intn(2) == 0
					sg := e.OracleAdm
					if rng.Intn(6) == 0 {
						sg = e.Users[0] // not the admin
					}
					if fs != nil {
						vi, add, sg = fs.val, fs.add, e.OracleAdm
					}
					op := map[bool]string{true: "add", false: "remove"}[add]
					m := ethbridgetypes.NewMsgUpdateWhiteListValidator(sg.Addr, e.ValAddr(vi), op)
					msg, signer = &m, sg
					bs = BStep{Kind: 3, Add: add, A: []int64{e.AcctID[sg.Addr.String()], e.ValID[e.ValAddr(vi).String()]},
						Desc: map[string]interface{}{"type": "UpdateWhiteListValidator", "op": op, "validator": vi, "signer": sg.Name}}
				case 2:
					sg := e.OracleAdm
					if rng.Intn(4) == 0 {
						sg = e.Users[1]
					}
					r := e.Users[rng.Intn(3)]
					m := ethbridgetypes.NewMsgUpdateCethReceiverAccount(sg.Addr, r.Addr)
					msg, signer = &m, sg
					bs = BStep{Kind: 4, A: []int64{e.AcctID[sg.Addr.String()], e.AcctID[r.Addr.String()]},
						Desc: map[string]interface{}{"type": "UpdateCethReceiverAccount", "signer": sg.Name, "receiver": r.Name}}
				default:
					sg := e.OracleAdm
					if rng.Intn(4) == 0 {
						sg = e.Users[1]
					}
					amt := RandAmount(rng, 12)
					m := ethbridgetypes.NewMsgRescueCeth(sg.Addr, e.Users[1].Addr, sdk.NewIntFromBigInt(amt))
					msg, signer = &m, sg
					bs = BStep{Kind: 5, A: []int64{e.AcctID[sg.Addr.String()], e.AcctID[e.Users[1].Addr.String()]}, Amt: amt,
						Desc: map[string]interface{}{"type": "RescueCeth", "signer": sg.Name, "amount": amt.String()}}
				}
			}
			pre := e.Snapshot()
			res := e.Tx(signer, msg)
			post := e.Snapshot()
			sid := e.AcctID[signer.Addr.String()]
			if res.Code != 0 && bBalOf(pre, sid, 0).Cmp(bBalOf(post, sid, 0)) == 0 {
				rep.Count("tx.ante-failed")
				continue
			}
			*nextID++
			bs.ID, bs.Fee, bs.OK, bs.Pre, bs.Post, bs.HistID, bs.StepNo, bs.Env, bs.Cont = *nextID, chain.E(18), res.Code == 0, pre, post, hI, st, e, copyContents(e.Contents)
			bs.Desc["log"] = trunc(res.Log, 120)
			for _, ev := range res.Events {
				if ev.Type == "lock" || ev.Type == "burn" {
					var kv []string
					for _, a := range ev.Attributes {
						kv = append(kv, string(a.Key)+"="+string(a.Value))
					}
					// x/bank also emits an event of type "burn" (coin burn); the bridge's own event carries cosmos_sender
					if strings.Contains(strings.Join(kv, ","), "cosmos_sender=") {
						bs.Events = append(bs.Events, ev.Type+":"+strings.Join(kv, ","))
					}
				}
			}
			h.Steps = append(h.Steps, bs)
			rep.Count(fmt.Sprintf("tx.%v.%s", bs.Desc["type"], okStr(bs.OK)))
			if (st+1)%4 == 0 {
				if e.NextBlock() {
					rep.Violate("bridge/hook-panic", fmt.Sprint(e.HookPanic), h.replay(st))
					break
				}
			}
		}
		hs = append(hs, h)
		rep.ImplTraces++
	}
	return hs
}

func bBalOf(s env.BridgeState, acct, denom int64) *big.Int {
	for _, b := range s.Balances {
		if b.Acct == acct && b.Denom == denom {
			return b.Amt
		}
	}
	return big.NewInt(0)
}

func bSupply(s env.BridgeState, denom int64) *big.Int {
	for _, b := range s.Supply {
		if b.Denom == denom {
			return b.Amt
		}
	}
	return big.NewInt(0)
}

func prophecyOf(s env.BridgeState, id int64) *env.Prophecy {
	for i := range s.Prophecies {
		if s.Prophecies[i].ID == id {
			return &s.Prophecies[i]
		}
	}
	return nil
}

func inList(x int64, l []int64) bool {
	for _, y := range l {
		if x == y {
			return true
		}
	}
	return false
}

func writeBridgeFiles(c Ctx, rep *report.Report, prefix string, hs []BHistory, per int) {
	var all []BStep
	for _, h := range hs {
		all = append(all, h.Steps...)
	}
	for s := 0; s*per < len(all); s++ {
		end := (s + 1) * per
		if end > len(all) {
			end = len(all)
		}
		var items []string
		for _, st := range all[s*per : end] {
			items = append(items, st.Enc())
			d := map[string]interface{}{"history": st.HistID, "step": st.StepNo, "ok": st.OK}
			for k, v := range st.Desc {
				d[k] = v
			}
			rep.CaseIndex[fmt.Sprint(st.ID)] = d
		}
		writeCases(c, rep, fmt.Sprintf("%s_%d.v", prefix, s), "From Sif Require Import Check.Bridge.\n",
			fmt.Sprintf("Definition cases : list (list int) := %s.\nDefinition M := Eval vm_compute in (bridge_mismatches cases).\n", coqList(items)))
	}
}

func countBNontrivial(hs []BHistory) int {
	seen := map[string]bool{}
	for _, h := range hs {
		for _, s := range h.Steps {
			if !s.OK {
				continue
			}
			e := s.Enc()
			seen[e[len(e)/8:]] = true
		}
	}
	return len(seen)
}
