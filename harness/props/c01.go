package props

import (
	"fmt"
	"math/big"

	"sifverif/chain"
	"sifverif/env"
	"sifverif/report"
)

func clpOpts(c Ctx, q, t int) HistOpts {
	return HistOpts{Histories: c.N(q, t), Steps: 36, Tokens: []string{"cdash", "ceth", "cusdc"}, Users: 4,
		Weights: DefaultWeights, Locks: true, Lppd: true, Rewards: true, Fees: true, Pmtp: true, Whitelist: true, Epochs: true}
}

const histRule = "one case = one observed DeliverTx / EndBlock / BeginBlock transition of the real app inside generated multi-block histories " +
	"(1-3 pools, 4 accounts, amounts log-uniform 1..1e30 with boundary values, all clp user messages, reward periods, LPPD periods, per-token fees, ratio-shifting rate, lock periods set through the real admin messages); " +
	"non-trivial = distinct transition whose post-state differs from its pre-state by more than the fee"

func countNontrivial(hs []History) int {
	seen := map[string]bool{}
	for _, h := range hs {
		for _, s := range h.Steps {
			if s.Kind == 1 && !s.OK {
				continue
			}
			e := s.Enc()
			seen[e[len(e)/8:]] = true
		}
	}
	return len(seen)
}

// C01 — AMM solvency.
func C01(c Ctx) *report.Report {
	rep := report.New("C01", c.Seed, c.Tier)
	rng := chain.NewRng(c.Seed)
	next := 0
	hs := []History{ScriptF2(&next), ScriptReinvestDry(&next)} // corpus first (wallet payout that outruns the bucket; re-invested bucket that runs dry)
	hs = append(hs, RunClpHistories(c, rep, rng, clpOpts(c, 40, 1500), &next)...)
	for _, h := range hs {
		MonSolvency(rep, h)
		if len(rep.Samples) < 2 && len(h.Steps) > 3 {
			rep.Sample(replayOf(h, 3))
		}
	}
	// margin: open / close / admin close / liquidations and interest payments in BeginBlock, interleaved with swaps
	nextM := 2000000
	mhs := []MHistory{ScriptLiquidationSurplus(9021, &nextM)} // corpus first
	mhs = append(mhs, RunMarginHistories(c, rep, rng, c.N(12, 250), 45, &nextM)...)
	liquidated := 0
	for _, h := range mhs {
		MonMarginSolvency(rep, h)
		for _, s := range h.Steps {
			if s.Kind == 3 && len(s.Post.MTPs) < len(s.Pre.MTPs) {
				liquidated++
			}
		}
	}
	rep.Distribution["margin.begin-block.with-liquidation"] = liquidated
	rep.Evaluations = next + (nextM - 2000000)
	rep.DistinctNontrivial = countNontrivial(hs) + (nextM - 2000000)
	rep.Rule = histRule + "; plus margin histories (see C13) whose every transition is re-run by the margin model and checked for module balance = pool balances + custody"
	writeHistFiles(c, rep, "cases_C01", hs, 450)
	writeMarginFiles(c, rep, "cases_C01_margin", mhs, 300)
	return rep
}

// MonMarginSolvency — C01 on margin histories: for every denom the clp module account holds exactly the recorded
// pool balances plus custody (no rewards buckets in these histories), after every transaction and block hook.
func MonMarginSolvency(rep *report.Report, h MHistory) {
	nd := int64(len(h.Env.DenomID))
	for _, s := range h.Steps {
		for d := int64(0); d < nd; d++ {
			rec := new(big.Int)
			for _, p := range s.Post.Pools {
				if d == 0 {
					rec.Add(rec, p.NB)
					rec.Add(rec, p.NC)
				} else if d == p.Asset {
					rec.Add(rec, p.EB)
					rec.Add(rec, p.EC)
				}
			}
			held := mbal(s.Post, env.ClpModuleID, d)
			if held.Cmp(rec) != 0 {
				kind := "tx"
				if s.Kind == 3 {
					kind = "BeginBlock"
				}
				rep.Violate("C01/margin-diverged/"+kind, fmt.Sprintf("denom %d: module account holds %s, pools record %s (balance + custody)", d, held, rec), h.replay(s.StepNo))
				break
			}
		}
	}
}

// C02 — pool units = sum of provider units; removal bounds.
func C02(c Ctx) *report.Report {
	rep := report.New("C02", c.Seed, c.Tier)
	rng := chain.NewRng(c.Seed + 2)
	next := 0
	o := clpOpts(c, 30, 1200)
	o.Weights = map[int]int{1: 2, 2: 7, 3: 6, 4: 6, 5: 4, 6: 2, 7: 1, 8: 2, 9: 1}
	hs := []History{ScriptF14(&next), ScriptReinvestDry(&next), ScriptReinvestSix(&next), ScriptZeroUnitProvider(&next)} // corpus first
	for i := 0; i < c.N(6, 100); i++ {
		hs = append(hs, ScriptDust(rng, 8000+i, &next))
	}
	hs = append(hs, RunClpHistories(c, rep, rng, o, &next)...)
	for _, h := range hs {
		MonUnits(rep, h)
		if len(rep.Samples) < 2 && len(h.Steps) > 3 {
			rep.Sample(replayOf(h, 3))
		}
	}
	// the withdrawal / unit calculators, directly
	cn := 0
	calc := CalcCases(rep, rng, []int{3, 4, 5, 6, 7}, c.N(600, 20000), &cn)
	for i := range calc {
		calc[i].ID += 1000000
		rep.CaseIndex[itoa(calc[i].ID)] = calc[i].JSON()
	}
	rep.Evaluations = next + len(calc)
	rep.DistinctNontrivial = countNontrivial(hs) + len(calc)
	rep.Rule = histRule + "; plus direct calls of CalculatePoolUnits / CalculateWithdrawal / CalculateWithdrawalFromUnits / unit conversions on generated inputs (units and depths 1..1e33); plus queued removals: two margin-enabled pools with liabilities, 8-15 removal requests of four providers queued through the message server, GetRemovalQueueUnitsForLP observed for every provider and pool after each, then removals by units around units - queued as transactions"
	writeHistFiles(c, rep, "cases_C02", hs, 450)
	writeCalcFiles(c, rep, "cases_C02_calc", calc, 400)
	// queued removals (built through the message server on one context, see c02queue.go)
	qc := c02Queue(c, rep, rng, c.N(6, 80))
	rep.Evaluations += len(qc)
	for i := 0; i*500 < len(qc); i++ {
		end := (i + 1) * 500
		if end > len(qc) {
			end = len(qc)
		}
		writeCases(c, rep, fmt.Sprintf("cases_C02_queue_%d.v", i), "From Sif Require Import Check.Queue.\n",
			fmt.Sprintf("Definition cases : list (list int) := %s.\nDefinition M := Eval vm_compute in (queue_mismatches cases).\n", coqList(qc[i*500:end])))
	}
	return rep
}
