package props

import (
	"sifverif/chain"
	"sifverif/report"
)

func clpOpts(c Ctx, q, t int) HistOpts {
	return HistOpts{Histories: c.N(q, t), Steps: 36, Tokens: []string{"cdash", "ceth", "cusdc"}, Users: 4,
		Weights: DefaultWeights, Locks: true, Lppd: true, Rewards: true, Fees: true, Pmtp: true, Whitelist: true, Epochs: true}
}

const histRule = "one case = one observed DeliverTx / EndBlock / BeginBlock transition of the real app inside generated multi-block histories " +
	"(1-3 pools, 4 accounts, amounts log-uniform 1..1e30 with boundary values, all clp user messages, reward periods, LPPD periods, per-token fees, ratio-shifting rate, lock periods set through the real admin messages); " +
	"non-trivial = distinct transition whose post-state differs from its pre-state by more than the fee"

func countNontrivial(hs []History) int {
	seen := map[string]bool{}
	for _, h := range hs {
		for _, s := range h.Steps {
			if s.Kind == 1 && !s.OK {
				continue
			}
			e := s.Enc()
			seen[e[len(e)/8:]] = true
		}
	}
	return len(seen)
}

// C01 — AMM solvency.
func C01(c Ctx) *report.Report {
	rep := report.New("C01", c.Seed, c.Tier)
	rng := chain.NewRng(c.Seed)
	next := 0
	hs := []History{ScriptF2(&next)} // corpus first
	hs = append(hs, RunClpHistories(c, rep, rng, clpOpts(c, 40, 1500), &next)...)
	for _, h := range hs {
		MonSolvency(rep, h)
		if len(rep.Samples) < 2 && len(h.Steps) > 3 {
			rep.Sample(replayOf(h, 3))
		}
	}
	rep.Evaluations = next
	rep.DistinctNontrivial = countNontrivial(hs)
	rep.Rule = histRule
	writeHistFiles(c, rep, "cases_C01", hs, 450)
	return rep
}

// C02 — pool units = sum of provider units; removal bounds.
func C02(c Ctx) *report.Report {
	rep := report.New("C02", c.Seed, c.Tier)
	rng := chain.NewRng(c.Seed + 2)
	next := 0
	o := clpOpts(c, 30, 1200)
	o.Weights = map[int]int{1: 2, 2: 7, 3: 6, 4: 6, 5: 4, 6: 2, 7: 1, 8: 2, 9: 1}
	hs := []History{ScriptF14(&next)} // corpus first
	for i := 0; i < c.N(6, 100); i++ {
		hs = append(hs, ScriptDust(rng, 8000+i, &next))
	}
	hs = append(hs, RunClpHistories(c, rep, rng, o, &next)...)
	for _, h := range hs {
		MonUnits(rep, h)
		if len(rep.Samples) < 2 && len(h.Steps) > 3 {
			rep.Sample(replayOf(h, 3))
		}
	}
	// the withdrawal / unit calculators, directly
	cn := 0
	calc := CalcCases(rep, rng, []int{3, 4, 5, 6, 7}, c.N(600, 20000), &cn)
	for i := range calc {
		calc[i].ID += 1000000
		rep.CaseIndex[itoa(calc[i].ID)] = calc[i].JSON()
	}
	rep.Evaluations = next + len(calc)
	rep.DistinctNontrivial = countNontrivial(hs) + len(calc)
	rep.Rule = histRule + "; plus direct calls of CalculatePoolUnits / CalculateWithdrawal / CalculateWithdrawalFromUnits / unit conversions on generated inputs (units and depths 1..1e33)"
	writeHistFiles(c, rep, "cases_C02", hs, 450)
	writeCalcFiles(c, rep, "cases_C02_calc", calc, 400)
	return rep
}
