package props

import (
	"fmt"
	"math/big"
	"strings"

	clpkeeper "github.com/Sifchain/sifnode/x/clp/keeper"
	clptypes "github.com/Sifchain/sifnode/x/clp/types"
	margintypes "github.com/Sifchain/sifnode/x/margin/types"
	sdk "github.com/cosmos/cosmos-sdk/types"

	"sifverif/chain"
	"sifverif/env"
	"sifverif/report"
)

// c02Queue — "never more than the remover holds (net of units already queued for removal)".
//
// A removal from a margin-enabled pool that would leave the pool's health below the removal-queue threshold is stored as a
// queued request and answered with ErrQueued. That is an error: baseapp keeps none of the writes of such a transaction, so
// through DeliverTx the queue stays empty. The requests are therefore built the way the repository's own tests build
// them: by calling the message server on one context of the running block, whose writes stay. Everything else (pools,
// providers, margin positions that give the pools liabilities, parameter changes, the final removals) goes through
// delivered transactions.
//
// Observed: after every queued request, for every provider and pool, the keeper's GetRemovalQueueUnitsForLP against the
// provider's requests read key by key from the store (model: Model/ClpQueue.v queued_units; independent sum here);
// finally, with the threshold lowered again, removals by units around "units - queued" through DeliverTx.
func c02Queue(c Ctx, rep *report.Report, rng *chain.Rng, worlds int) []string {
	var cases []string
	id := 5000000
	for wI := 0; wI < worlds; wI++ {
		toks := []string{"ceth", "cusdc"}
		e := env.New(env.Opts{NUsers: 5, Tokens: toks})
		e.BeginBlock()
		mustOK(e.UpdateRewardsParams(0, 0, 0, "", false), "rewards params")
		var script []interface{}
		desc := map[string]interface{}{"world": wI, "seed": c.Seed, "note": "queued requests are made by calling the clp message server on the running block's context (a delivered transaction that is queued keeps no writes)"}
		for _, t := range toks {
			n := new(big.Int).Mul(big.NewInt(int64(100000+rng.Intn(900000))), chain.E(18))
			mustOK(e.CreatePool(e.Users[0], t, n, n), "create pool")
			for _, u := range e.Users[1:4] {
				if rng.Intn(4) != 0 {
					d := big.NewInt(int64(2 + rng.Intn(30)))
					mustOK(e.AddLiquidity(u, t, new(big.Int).Div(n, d), new(big.Int).Div(n, d)), "add liquidity")
				}
			}
		}
		ps := *margintypes.DefaultGenesis().Params
		ps.ForceCloseFundAddress, ps.IncrementalInterestPaymentFundAddress = e.Users[0].Addr.String(), e.Users[0].Addr.String()
		ps.RemovalQueueThreshold = sdk.MustNewDecFromStr("0.999999999")
		ps.IncrementalInterestPaymentEnabled = false
		mustOK(e.Tx(e.Admin, &margintypes.MsgUpdateParams{Signer: e.Admin.Addr.String(), Params: &ps}), "margin params")
		mustOK(e.Tx(e.Admin, &margintypes.MsgUpdatePools{Signer: e.Admin.Addr.String(), Pools: toks}), "margin pools")
		e.NextBlock()
		for _, t := range toks { // liabilities on both pools
			m := margintypes.MsgOpen{Signer: e.Users[4].Addr.String(), CollateralAsset: "rowan", CollateralAmount: env.U(new(big.Int).Mul(big.NewInt(1000), chain.E(18))), BorrowAsset: t, Position: margintypes.Position_LONG, Leverage: sdk.NewDec(2)}
			mustOK(e.Tx(e.Users[4], &m), "open")
		}
		ctx := e.Ctx()
		e.App.ClpKeeper.SetParams(ctx, clptypes.Params{MinCreatePoolThreshold: e.App.ClpKeeper.GetParams(ctx).MinCreatePoolThreshold, EnableRemovalQueue: true})
		srv := clpkeeper.NewMsgServerImpl(e.App.ClpKeeper)
		// what the store holds for one provider, key by key
		requestsOf := func(addr string) [][2]*big.Int {
			var out [][2]*big.Int
			it := sdk.KVStorePrefixIterator(ctx.KVStore(e.App.GetKey(clptypes.StoreKey)), clptypes.GetRemovalRequestLPPrefix(addr))
			defer it.Close()
			for ; it.Valid(); it.Next() {
				var r clptypes.RemovalRequest
				e.App.AppCodec().MustUnmarshal(it.Value(), &r)
				out = append(out, [2]*big.Int{big.NewInt(e.DenomID[r.Msg.ExternalAsset.Symbol]), new(big.Int).Set(r.Msg.WBasisPoints.BigInt())})
			}
			return out
		}
		observe := func() {
			for _, u := range e.Users[:4] {
				for _, t := range toks {
					lp, err := e.App.ClpKeeper.GetLiquidityProvider(ctx, t, u.Addr.String())
					if err != nil {
						continue
					}
					reqs := requestsOf(u.Addr.String())
					got := big.NewInt(-1)
					func() {
						defer func() { _ = recover() }()
						got = new(big.Int).Set(e.App.ClpKeeper.GetRemovalQueueUnitsForLP(ctx, lp).BigInt())
					}()
					// independent sum
					want := new(big.Int)
					for _, r := range reqs {
						if r[0].Int64() == e.DenomID[t] && r[1].Sign() > 0 && r[1].Cmp(big.NewInt(10000)) <= 0 {
							d := new(big.Int).Div(big.NewInt(10000), r[1])
							want.Add(want, new(big.Int).Div(lp.LiquidityProviderUnits.BigInt(), d))
						}
					}
					id++
					en := &env.Enc{}
					en.I(int64(id)).Z(lp.LiquidityProviderUnits.BigInt()).I(e.DenomID[t]).Len(len(reqs))
					var rl []string
					for _, r := range reqs {
						en.Z(r[0]).Z(r[1])
						rl = append(rl, fmt.Sprintf("pool %s: %s weighted basis points", r[0], r[1]))
					}
					en.Z(got)
					cases = append(cases, en.Coq())
					cd := map[string]interface{}{"setup": desc, "queue_calls": append([]interface{}{}, script...), "provider": u.Addr.String(), "pool": t, "provider_units": lp.LiquidityProviderUnits.String(),
						"requests_of_the_provider_in_store_order": rl, "GetRemovalQueueUnitsForLP": got.String(), "sum_over_this_pools_requests": want.String()}
					rep.CaseIndex[fmt.Sprint(id)] = cd
					if got.Cmp(want) != 0 {
						rep.Violate("C02/queued-units-miscounted", fmt.Sprintf("provider %s, pool %s: the keeper counts %s units as queued, the provider's requests against this pool add up to %s", u.Addr.String(), t, got, want), cd)
					}
				}
			}
		}
		for st := 0; st < 8+rng.Intn(8); st++ {
			u := e.Users[rng.Intn(4)]
			t := toks[rng.Intn(2)]
			w := int64([]int{10000, 5000, 2500, 2000, 1000, 1 + rng.Intn(10000)}[rng.Intn(6)])
			msg := &clptypes.MsgRemoveLiquidity{Signer: u.Addr.String(), ExternalAsset: &clptypes.Asset{Symbol: t}, WBasisPoints: sdk.NewInt(w), Asymmetry: sdk.ZeroInt()}
			var err error
			func() {
				defer func() {
					if r := recover(); r != nil {
						err = fmt.Errorf("panic: %v", r)
					}
				}()
				_, err = srv.RemoveLiquidity(sdk.WrapSDKContext(ctx), msg)
			}()
			res := "executed"
			if err != nil {
				res = trunc(err.Error(), 80)
			}
			script = append(script, map[string]interface{}{"call": "RemoveLiquidity", "signer": u.Addr.String(), "pool": t, "w_basis_points": w, "result": res})
			rep.Count("queue.call." + map[bool]string{true: "queued", false: "other"}[err != nil && strings.Contains(err.Error(), "queued")])
			observe()
		}
		// the pools are healthy enough again (threshold lowered): removals by units around what is not queued, as transactions
		ps.RemovalQueueThreshold = sdk.MustNewDecFromStr("0.1")
		mustOK(e.Tx(e.Admin, &margintypes.MsgUpdateParams{Signer: e.Admin.Addr.String(), Params: &ps}), "margin params")
		for _, u := range e.Users[:4] {
			for _, t := range toks {
				lp, err := e.App.ClpKeeper.GetLiquidityProvider(e.Ctx(), t, u.Addr.String())
				if err != nil {
					continue
				}
				queued := new(big.Int)
				for _, r := range requestsOf(u.Addr.String()) {
					if r[0].Int64() == e.DenomID[t] && r[1].Sign() > 0 && r[1].Cmp(big.NewInt(10000)) <= 0 {
						queued.Add(queued, new(big.Int).Div(lp.LiquidityProviderUnits.BigInt(), new(big.Int).Div(big.NewInt(10000), r[1])))
					}
				}
				free := new(big.Int).Sub(lp.LiquidityProviderUnits.BigInt(), queued)
				ask := new(big.Int).Add(free, big.NewInt(int64(rng.Intn(3)-1))) // free-1, free, free+1
				if rng.Intn(3) == 0 {
					ask = new(big.Int).Set(lp.LiquidityProviderUnits.BigInt())
				}
				if ask.Sign() <= 0 {
					continue
				}
				m := clptypes.NewMsgRemoveLiquidityUnits(u.Addr, clptypes.NewAsset(t), sdk.NewUintFromBigInt(ask))
				res := e.Tx(u, &m)
				after := new(big.Int)
				if lp2, err := e.App.ClpKeeper.GetLiquidityProvider(e.Ctx(), t, u.Addr.String()); err == nil {
					after.Set(lp2.LiquidityProviderUnits.BigInt())
				}
				burned := new(big.Int).Sub(lp.LiquidityProviderUnits.BigInt(), after)
				rep.Count("queue.final-removal." + okStr(res.Code == 0))
				id++
				if res.Code == 0 && burned.Cmp(free) > 0 {
					rep.Violate("C02/removed-queued-units", fmt.Sprintf("provider %s, pool %s: a removal burned %s units of %s, of which %s are queued for removal", u.Addr.String(), t, burned, lp.LiquidityProviderUnits, queued),
						map[string]interface{}{"setup": desc, "queue_calls": script, "removal_by_units": ask.String(), "log": trunc(res.Log, 120)})
				}
				ctx = e.Ctx()
			}
		}
		rep.ImplTraces++
	}
	return cases
}
