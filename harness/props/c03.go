package props

import (
	"fmt"
	"math/big"

	"sifverif/chain"
	"sifverif/env"
	"sifverif/report"
)

// MonSwapCalc — property clauses on one observed SwapOne / CalcSwapResult call.
func MonSwapCalc(rep *report.Report, c CalcCase) {
	if c.Kind != 0 {
		return
	}
	one := chain.E(18)
	upper := func(toRowan bool, X, x, Y, r, f, y *big.Int) bool {
		if X.Sign() == 0 || x.Sign() == 0 || Y.Sign() == 0 {
			return y.Sign() == 0
		}
		raw := new(big.Rat).SetFrac(new(big.Int).Mul(x, Y), new(big.Int).Add(X, x))
		pf := new(big.Rat).SetFrac(new(big.Int).Add(one, r), one)
		adj := new(big.Rat)
		if toRowan {
			adj.Quo(raw, pf)
		} else {
			adj.Mul(raw, pf)
		}
		ff := new(big.Rat).SetFrac(new(big.Int).Sub(one, f), one)
		bound := new(big.Rat).Add(new(big.Rat).Mul(adj, ff), big.NewRat(1, 1))
		return new(big.Rat).SetInt(y).Cmp(bound) <= 0
	}
	a := c.Args
	switch c.Fn {
	case 1:
		if !upper(a[0].Sign() != 0, a[1], a[2], a[3], a[4], a[5], c.Outs[0]) {
			rep.Violate("C03/calc/upper-bound", fmt.Sprintf("CalcSwapResult output %s exceeds x*Y/(X+x) adjusted, less fee, plus one", c.Outs[0]), c.JSON())
		}
	case 2:
		toRowan := a[0].Sign() != 0
		sent, nb, eb, nl, el := a[1], a[2], a[3], a[4], a[5]
		res, nb2, eb2 := c.Outs[0], c.Outs[2], c.Outs[3]
		var X, Y, Xi, Yi, X2, Y2 *big.Int
		if toRowan {
			X, Y, Xi, Yi, X2, Y2 = eb, nb, new(big.Int).Add(eb, el), new(big.Int).Add(nb, nl), eb2, nb2
		} else {
			X, Y, Xi, Yi, X2, Y2 = nb, eb, new(big.Int).Add(nb, nl), new(big.Int).Add(eb, el), nb2, eb2
		}
		if X2.Cmp(new(big.Int).Add(X, sent)) != 0 || Y2.Cmp(new(big.Int).Sub(Y, res)) != 0 {
			rep.Violate("C03/calc/pool-not-exact", fmt.Sprintf("SwapOne: pool moved by (%s, %s), swap was (+%s, -%s)", new(big.Int).Sub(X2, X), new(big.Int).Sub(Y2, Y), sent, res), c.JSON())
		}
		if res.Cmp(Y) >= 0 {
			rep.Violate("C03/calc/drained", fmt.Sprintf("SwapOne: output %s >= pool balance %s", res, Y), c.JSON())
		}
		if !upper(toRowan, Xi, sent, Yi, a[6], a[7], res) {
			rep.Violate("C03/calc/upper-bound", fmt.Sprintf("SwapOne output %s exceeds the constant-product bound", res), c.JSON())
		}
	}
}

// MonSwapTx — property clauses on observed swap transactions.
func MonSwapTx(rep *report.Report, h History) {
	for _, s := range h.Steps {
		if s.Kind != 1 || s.Msg.Tag != 5 {
			continue
		}
		m := s.Msg
		if !s.OK {
			if !stateUnchangedExceptFee(s) {
				rep.Violate("C03/tx/failed-swap-changed-state", "a failed swap changed something besides the fee", replayOf(h, s.StepNo))
			}
			continue
		}
		sent, recv := m.A, m.B
		// trader deltas
		dSent := new(big.Int).Sub(balOf(s.Pre, m.Signer, sent), balOf(s.Post, m.Signer, sent))
		dRecv := new(big.Int).Sub(balOf(s.Post, m.Signer, recv), balOf(s.Pre, m.Signer, recv))
		if sent == 0 {
			dSent.Sub(dSent, s.Fee)
		}
		if recv == 0 {
			dRecv.Add(dRecv, s.Fee)
		}
		if sent == recv {
			continue
		}
		emit := dRecv
		if dSent.Cmp(m.X) != 0 {
			rep.Violate("C03/tx/debit-not-exact", fmt.Sprintf("trader debited %s, sent amount %s", dSent, m.X), replayOf(h, s.StepNo))
		}
		if emit.Cmp(m.Y) < 0 {
			rep.Violate("C03/tx/below-minimum", fmt.Sprintf("trader received %s, minimum %s", emit, m.Y), replayOf(h, s.StepNo))
		}
		// nobody else (but the module) moved, in any denom
		nd := int64(len(h.Env.DenomID))
		for id := range h.Env.AcctOf {
			for d := int64(0); d < nd; d++ {
				delta := new(big.Int).Sub(balOf(s.Post, id, d), balOf(s.Pre, id, d))
				want := new(big.Int)
				switch {
				case id == m.Signer && d == sent:
					want.Neg(m.X)
				case id == m.Signer && d == recv:
					want.Set(emit)
				case id == env.ClpModuleID && d == sent:
					want.Set(m.X)
				case id == env.ClpModuleID && d == recv:
					want.Neg(emit)
				}
				if id == m.Signer && d == 0 {
					want.Sub(want, s.Fee)
				}
				if delta.Cmp(want) != 0 {
					rep.Violate("C03/tx/other-balance-changed", fmt.Sprintf("account %d denom %d moved by %s, expected %s", id, d, delta, want), replayOf(h, s.StepNo))
				}
			}
		}
		// pools move by exactly those amounts
		chk := func(asset int64, dn, de *big.Int) {
			p0, p1 := poolOf(s.Pre, asset), poolOf(s.Post, asset)
			if p0 == nil || p1 == nil {
				return
			}
			if new(big.Int).Sub(p1.NB, p0.NB).Cmp(dn) != 0 || new(big.Int).Sub(p1.EB, p0.EB).Cmp(de) != 0 {
				rep.Violate("C03/tx/pool-not-exact", fmt.Sprintf("pool %d moved by (%s, %s), expected (%s, %s)", asset, new(big.Int).Sub(p1.NB, p0.NB), new(big.Int).Sub(p1.EB, p0.EB), dn, de), replayOf(h, s.StepNo))
			}
			if p1.EB.Sign() <= 0 || p1.NB.Sign() <= 0 {
				rep.Violate("C03/tx/drained", fmt.Sprintf("pool %d drained", asset), replayOf(h, s.StepNo))
			}
		}
		// the output never exceeds the fee-free constant-product output adjusted by the ratio-shifting rate, less the fee
		// rate configured for the SOLD token (its per-token override if there is one, else the default), one base unit per leg
		fee := s.Pre.Params.FeeDefault
		for _, ft := range s.Pre.Params.FeeTokens {
			if ft[0].Int64() == sent {
				fee = ft[1]
				break
			}
		}
		legBound := func(toRowan bool, p *env.Pool, x *big.Int) *big.Int { // floor of the bound, plus one
			var X, Y *big.Int
			if toRowan {
				X, Y = new(big.Int).Add(p.EB, p.EL), new(big.Int).Add(p.NB, p.NL)
			} else {
				X, Y = new(big.Int).Add(p.NB, p.NL), new(big.Int).Add(p.EB, p.EL)
			}
			if X.Sign() == 0 && x.Sign() == 0 {
				return big.NewInt(1)
			}
			one := chain.E(18)
			raw := new(big.Rat).SetFrac(new(big.Int).Mul(x, Y), new(big.Int).Add(X, x))
			pf := new(big.Rat).SetFrac(new(big.Int).Add(one, s.Pre.Params.Pmtp), one)
			if toRowan {
				raw.Quo(raw, pf)
			} else {
				raw.Mul(raw, pf)
			}
			raw.Mul(raw, new(big.Rat).SetFrac(new(big.Int).Sub(one, fee), one))
			fl := new(big.Int).Quo(raw.Num(), raw.Denom())
			return fl.Add(fl, big.NewInt(1))
		}
		ub := func(what string, got, bound *big.Int) {
			if got.Cmp(bound) > 0 {
				rep.Violate("C03/tx/upper-bound", fmt.Sprintf("%s: %s exceeds x*Y/(X+x) adjusted by the ratio-shifting rate less the sold token's fee rate %s (bound %s)", what, got, fee, bound), replayOf(h, s.StepNo))
			}
		}
		switch {
		case sent == 0:
			if p0 := poolOf(s.Pre, recv); p0 != nil {
				ub("native->external output", emit, legBound(false, p0, m.X))
			}
		case recv == 0:
			if p0 := poolOf(s.Pre, sent); p0 != nil {
				ub("external->native output", emit, legBound(true, p0, m.X))
			}
		default:
			p0, p1, q0 := poolOf(s.Pre, sent), poolOf(s.Post, sent), poolOf(s.Pre, recv)
			if p0 != nil && p1 != nil && q0 != nil {
				mid := new(big.Int).Sub(p0.NB, p1.NB)
				ub("external->external first leg", mid, legBound(true, p0, m.X))
				ub("external->external second leg", emit, legBound(false, q0, mid))
			}
		}
		switch {
		case sent == 0:
			chk(recv, m.X, new(big.Int).Neg(emit))
		case recv == 0:
			chk(sent, new(big.Int).Neg(emit), m.X)
		default:
			p0, p1 := poolOf(s.Pre, sent), poolOf(s.Post, sent)
			if p0 != nil && p1 != nil {
				mid := new(big.Int).Sub(p0.NB, p1.NB)
				chk(sent, new(big.Int).Neg(mid), m.X)
				chk(recv, mid, new(big.Int).Neg(emit))
			}
		}
	}
}

// C03 — swaps.
func C03(c Ctx) *report.Report {
	rep := report.New("C03", c.Seed, c.Tier)
	rng := chain.NewRng(c.Seed + 3)
	next := 0
	o := clpOpts(c, 24, 1000)
	o.Weights = map[int]int{1: 2, 2: 3, 3: 1, 4: 1, 5: 20, 6: 0, 7: 0, 8: 0, 9: 0}
	o.Lppd, o.Rewards, o.Locks = false, false, false
	hs := RunClpHistories(c, rep, rng, o, &next)
	for _, h := range hs {
		MonSwapTx(rep, h)
		if len(rep.Samples) < 2 && len(h.Steps) > 3 {
			rep.Sample(replayOf(h, 3))
		}
	}
	cn := 0
	calc := CalcCases(rep, rng, []int{1, 2, 2, 8}, c.N(1600, 60000), &cn)
	for i := range calc {
		calc[i].ID += 1000000
		rep.CaseIndex[itoa(calc[i].ID)] = calc[i].JSON()
		MonSwapCalc(rep, calc[i])
	}
	rep.Evaluations = next + len(calc)
	rep.DistinctNontrivial = countNontrivial(hs) + len(calc)
	rep.Rule = histRule + "; swap-heavy message mix over all three routes with per-token fee overrides, ratio-shifting rates and minimum-received on both sides of the result; plus direct calls of CalcSwapResult / SwapOne / CalculateDiscountedSentAmount (depths 1..1e33 with and without liabilities, x up to 1e38, f in {0,1e-18,0.003,0.5,1,random}, r in [0,5])"
	writeHistFiles(c, rep, "cases_C03", hs, 450)
	writeCalcFiles(c, rep, "cases_C03_calc", calc, 800)
	return rep
}
