package props

import (
	"fmt"
	"math/big"

	clpkeeper "github.com/Sifchain/sifnode/x/clp/keeper"
	clptypes "github.com/Sifchain/sifnode/x/clp/types"
	margintypes "github.com/Sifchain/sifnode/x/margin/types"
	sdk "github.com/cosmos/cosmos-sdk/types"

	"sifverif/chain"
	"sifverif/env"
	"sifverif/report"
)

// ---- rounding dust of DESIGN.md section 4/C04 -----------------------------------------------
// dust(v) for a quantity v measured in the token whose depth is `own`, the other side's depth `other`:
// 3 + 3*ceil(own/other) + v/1e9 + own/1e16
func dustC04(v, own, other *big.Int) *big.Int {
	d := big.NewInt(3)
	if other.Sign() > 0 {
		q := new(big.Int).Add(own, new(big.Int).Sub(other, big.NewInt(1)))
		q.Div(q, other)
		d.Add(d, q.Mul(q, big.NewInt(3)))
	}
	av := new(big.Int).Abs(v)
	d.Add(d, av.Div(av, bigE(9)))
	d.Add(d, new(big.Int).Div(own, bigE(16)))
	return d
}

func mulBig(xs ...*big.Int) *big.Int {
	r := big.NewInt(1)
	for _, x := range xs {
		r.Mul(r, x)
	}
	return r
}

// dust over a round trip that visits two pool states (before / after the add): the larger of the two
func dustRT(v, own0, other0, own1, other1 *big.Int) *big.Int {
	a, b := dustC04(v, own0, other0), dustC04(v, own1, other1)
	if a.Cmp(b) > 0 {
		return a
	}
	return b
}

// backingKept: backing per unit sqrt(R*A)/P is not lowered by more than dust. Dust is a value in base
// units, so the comparison is made on the claim of the units that exist both before and after
// (Pm = min(P0,P1) units): their claim afterwards, with dust (a few base units priced at the pool ratio,
// 1e-16 of the depth) put back on each side, has at least (1 - 1e-9) of the backing it had before:
//
//	(R1*Pm/P1 + dR) * (A1*Pm/P1 + dA) >= R0*A0*(Pm/P0)^2 * (1 - 2e-9)
func backingKept(R0, A0, P0, R1, A1, P1 *big.Int) bool {
	if P0.Sign() <= 0 || P1.Sign() <= 0 {
		return true
	}
	Pm := P0
	if P1.Cmp(P0) < 0 {
		Pm = P1
	}
	dR := dustC04(big.NewInt(0), R0, A0)
	dA := dustC04(big.NewInt(0), A0, R0)
	l1 := new(big.Int).Add(mulBig(R1, Pm), mulBig(dR, P1))
	l2 := new(big.Int).Add(mulBig(A1, Pm), mulBig(dA, P1))
	lhs := mulBig(l1, l2, P0, P0, bigE(9))
	rhs := mulBig(R0, A0, Pm, Pm, P1, P1, new(big.Int).Sub(bigE(9), big.NewInt(2)))
	return lhs.Cmp(rhs) >= 0
}

// ---- composite calculator cases: the real pure functions composed into round trips ---------------

func addCalc(rep *report.Report, cases *[]CalcCase, next *int, fn int, args []*big.Int) (int, []*big.Int) {
	kind, outs := RunCalc(fn, args)
	*next++
	*cases = append(*cases, CalcCase{ID: *next, Fn: fn, Args: args, Kind: kind, Outs: outs})
	rep.Count(fmt.Sprintf("calc.%s.%s", FnNames[fn], []string{"ok", "error", "panic"}[kind]))
	return kind, outs
}

func boolBig(b bool) *big.Int {
	if b {
		return big.NewInt(1)
	}
	return big.NewInt(0)
}

// depths and deposits of the property's quantifier: depths/units 1..1e33, deposits up to 2^128
func randDeposit(r *chain.Rng) *big.Int {
	switch r.Intn(10) {
	case 0:
		return new(big.Int).Lsh(big.NewInt(1), 128)
	case 1:
		return new(big.Int).Rand(r.Rand, new(big.Int).Lsh(big.NewInt(1), 128))
	}
	return RandAmount(r, 38)
}

func calcSwapRoundTrip(rep *report.Report, r *chain.Rng, cases *[]CalcCase, next *int) {
	tr := r.Intn(2) == 0
	X, Y := RandDepth(r), RandDepth(r)
	if r.Intn(3) == 0 { // comparable depths
		Y = new(big.Int).Add(new(big.Int).Div(new(big.Int).Mul(X, big.NewInt(int64(1+r.Intn(2000)))), big.NewInt(1000)), big.NewInt(1))
	}
	x := randDeposit(r)
	if r.Intn(2) == 0 { // amounts relative to the pool
		x = new(big.Int).Add(new(big.Int).Div(X, big.NewInt(int64(1+r.Intn(1000)))), big.NewInt(1))
	}
	pm, f, f2 := RandPmtp(r, 1), RandRate(r), RandRate(r)
	args := []*big.Int{boolBig(tr), X, x, Y, pm, f}
	k, o := addCalc(rep, cases, next, 1, args)
	if k != 0 || o[0].Cmp(Y) >= 0 {
		rep.Count("c04.calc.swap-rt.skipped")
		return
	}
	y := o[0]
	args2 := []*big.Int{boolBig(!tr), new(big.Int).Sub(Y, y), y, new(big.Int).Add(X, x), pm, f2}
	k2, o2 := addCalc(rep, cases, next, 1, args2)
	if k2 != 0 {
		return
	}
	rep.Count("c04.calc.swap-rt")
	if o2[0].Cmp(x) > 0 {
		rep.Violate("C04/calc/swap-roundtrip-profit", fmt.Sprintf("swap %s -> %s, back -> %s", x, y, o2[0]),
			map[string]interface{}{"first": (*cases)[len(*cases)-2].JSON(), "second": (*cases)[len(*cases)-1].JSON()})
	}
	if pm.Sign() == 0 { // backing clause on a single swap
		if mulBig(new(big.Int).Add(X, x), new(big.Int).Sub(Y, y)).Cmp(mulBig(X, Y)) < 0 {
			rep.Violate("C04/calc/swap-lowers-product", fmt.Sprintf("(X+x)(Y-y) < X*Y for X=%s x=%s Y=%s y=%s", X, x, Y, y), (*cases)[len(*cases)-2].JSON())
		}
	}
}

// calcSwapRoundTripPool: the same round trip through SwapOne on a pool that carries margin liabilities: the second
// swap runs on the pool the first one returns.
func calcSwapRoundTripPool(rep *report.Report, r *chain.Rng, cases *[]CalcCase, next *int) {
	tr := r.Intn(2) == 0
	nb, eb := RandDepth(r), RandDepth(r)
	if r.Intn(2) == 0 {
		eb = new(big.Int).Add(new(big.Int).Div(new(big.Int).Mul(nb, big.NewInt(int64(1+r.Intn(2000)))), big.NewInt(1000)), big.NewInt(1))
	}
	liab := func(base *big.Int) *big.Int {
		if r.Intn(4) == 0 {
			return big.NewInt(0)
		}
		return new(big.Int).Div(base, big.NewInt(int64(2+r.Intn(50))))
	}
	nl, el := liab(nb), liab(eb)
	base := nb
	if tr {
		base = eb
	}
	x := new(big.Int).Add(new(big.Int).Div(base, big.NewInt(int64(1+r.Intn(500)))), big.NewInt(1))
	pm, f, f2 := RandPmtp(r, 1), RandRate(r), RandRate(r)
	k, o := addCalc(rep, cases, next, 2, []*big.Int{boolBig(tr), x, nb, eb, nl, el, pm, f})
	if k != 0 || o[0].Sign() == 0 {
		rep.Count("c04.calc.swap-rt-pool.skipped")
		return
	}
	first := (*cases)[len(*cases)-1]
	// the pool must move by exactly (+x, -result) on its balances
	wantN, wantE := new(big.Int).Add(nb, x), new(big.Int).Sub(eb, o[0])
	if tr {
		wantN, wantE = new(big.Int).Sub(nb, o[0]), new(big.Int).Add(eb, x)
	}
	if o[2].Cmp(wantN) != 0 || o[3].Cmp(wantE) != 0 {
		rep.Violate("C04/calc/swap-pool-not-exact", fmt.Sprintf("SwapOne moved the pool to (%s,%s), expected (%s,%s)", o[2], o[3], wantN, wantE), first.JSON())
	}
	k2, o2 := addCalc(rep, cases, next, 2, []*big.Int{boolBig(!tr), o[0], o[2], o[3], nl, el, pm, f2})
	if k2 != 0 {
		return
	}
	rep.Count("c04.calc.swap-rt-pool")
	if o2[0].Cmp(x) > 0 {
		rep.Violate("C04/calc/swap-roundtrip-profit", fmt.Sprintf("SwapOne %s -> %s on a pool with liabilities (%s,%s), back -> %s", x, o[0], nl, el, o2[0]),
			map[string]interface{}{"first": first.JSON(), "second": (*cases)[len(*cases)-1].JSON()})
	}
}

func calcAddRemove(rep *report.Report, r *chain.Rng, cases *[]CalcCase, next *int) {
	P, R, A := RandDepth(r), RandDepth(r), RandDepth(r)
	if r.Intn(2) == 0 {
		A = new(big.Int).Add(new(big.Int).Div(new(big.Int).Mul(R, big.NewInt(int64(1+r.Intn(4000)))), big.NewInt(1000)), big.NewInt(1))
	}
	if r.Intn(2) == 0 {
		P = new(big.Int).Set(R) // units of the order of the native depth, as after CreatePool
	}
	var rr, aa *big.Int
	zero := big.NewInt(0)
	switch r.Intn(6) {
	case 0:
		k := big.NewInt(int64(1 + r.Intn(3)))
		rr, aa = new(big.Int).Mul(R, k), new(big.Int).Mul(A, k)
	case 1:
		rr, aa = randDeposit(r), zero
	case 2:
		rr, aa = zero, randDeposit(r)
	case 3: // relative to the pool, one-sided
		rr, aa = new(big.Int).Add(new(big.Int).Div(R, big.NewInt(int64(1+r.Intn(500)))), big.NewInt(1)), zero
		if r.Intn(2) == 0 {
			rr, aa = zero, new(big.Int).Add(new(big.Int).Div(A, big.NewInt(int64(1+r.Intn(500)))), big.NewInt(1))
		}
	default:
		rr, aa = randDeposit(r), randDeposit(r)
	}
	fs, fb := RandRate(r), RandRate(r)
	pm := RandPmtp(r, 1)
	if r.Intn(2) == 0 {
		pm = zero
	}
	k, o := addCalc(rep, cases, next, 3, []*big.Int{P, R, A, rr, aa, fs, fb, pm})
	if k != 0 {
		rep.Count("c04.calc.add-remove.add-refused")
		return
	}
	addCase := (*cases)[len(*cases)-1]
	pu, l, st, s := o[0], o[1], o[2].Int64(), o[3]
	R1, A1 := new(big.Int).Add(R, rr), new(big.Int).Add(A, aa)
	// clause 3 on the add (ratio shifting off)
	if pm.Sign() == 0 && !backingKept(R, A, P, R1, A1, pu) {
		rep.Violate("C04/calc/add-dilutes", fmt.Sprintf("add (%s,%s) to (R=%s,A=%s,P=%s) handed out %s units (internal swap %s)", rr, aa, R, A, P, l, s), addCase.JSON())
	}
	if l.Sign() == 0 {
		return
	}
	k2, o2 := addCalc(rep, cases, next, 5, []*big.Int{pu, R1, A1, l, l})
	if k2 != 0 {
		return
	}
	rep.Count(fmt.Sprintf("c04.calc.add-remove.status%d", st))
	wn, we := o2[0], o2[1]
	rmCase := (*cases)[len(*cases)-1]
	both := map[string]interface{}{"add": addCase.JSON(), "remove": rmCase.JSON()}
	dN, dE := new(big.Int).Sub(wn, rr), new(big.Int).Sub(we, aa)
	if dN.Cmp(dustRT(rr, R, A, R1, A1)) > 0 && dE.Cmp(dustRT(aa, A, R, A1, R1)) > 0 {
		rep.Violate("C04/calc/add-remove-both-more", fmt.Sprintf("gave (%s,%s) got (%s,%s)", rr, aa, wn, we), both)
	}
	// the side swapped internally never returns more than given (theorem C04_add_remove_side): (w-1)(1e18-1) <= x*1e18
	atMost := func(given, back *big.Int) bool {
		return mulBig(new(big.Int).Sub(back, big.NewInt(1)), new(big.Int).Sub(bigE(18), big.NewInt(1))).Cmp(mulBig(given, bigE(18))) <= 0
	}
	if (st == 0 || st == 2) && !atMost(rr, wn) || (st == 1 || st == 2) && !atMost(aa, we) {
		rep.Violate("C04/calc/add-remove-side-more", fmt.Sprintf("status %d gave (%s,%s) got (%s,%s)", st, rr, aa, wn, we), both)
	}
	// clause 2b: no better than swapping the given-up amount (guard: the swap takes at most 90% of a side)
	// the guard of the clause: "unless the equivalent swap would take more than 90% of one side" — the equivalent swap is
	// the internal swap of s at the public price (and, to be safe, also the public swap of the given-up amount)
	equivTakesTooMuch := func(toRowan bool, X, Y, fee *big.Int) bool {
		if s.Sign() == 0 {
			return false
		}
		kk, oo := RunCalc(1, []*big.Int{boolBig(toRowan), X, s, Y, pm, fee})
		return kk != 0 || mulBig(oo[0], big.NewInt(10)).Cmp(mulBig(Y, big.NewInt(9))) > 0
	}
	if st == 0 && dN.Sign() < 0 && dE.Sign() > 0 && !equivTakesTooMuch(false, R, A, fs) { // gave up native, gained external
		g := new(big.Int).Neg(dN)
		k3, o3 := addCalc(rep, cases, next, 1, []*big.Int{boolBig(false), R, g, A, pm, fs})
		if k3 == 0 && mulBig(o3[0], big.NewInt(10)).Cmp(mulBig(A, big.NewInt(9))) <= 0 {
			rep.Count("c04.calc.vs-swap.sell-native")
			if dE.Cmp(new(big.Int).Add(o3[0], dustRT(o3[0], A, R, A1, R1))) > 0 {
				both["swap"] = (*cases)[len(*cases)-1].JSON()
				rep.Violate("C04/calc/add-remove-beats-swap", fmt.Sprintf("gave up %s native, gained %s external; swapping buys %s", g, dE, o3[0]), both)
			}
		}
	}
	if st == 1 && dE.Sign() < 0 && dN.Sign() > 0 && !equivTakesTooMuch(true, A, R, fb) {
		g := new(big.Int).Neg(dE)
		k3, o3 := addCalc(rep, cases, next, 1, []*big.Int{boolBig(true), A, g, R, pm, fb})
		if k3 == 0 && mulBig(o3[0], big.NewInt(10)).Cmp(mulBig(R, big.NewInt(9))) <= 0 {
			rep.Count("c04.calc.vs-swap.buy-native")
			if dN.Cmp(new(big.Int).Add(o3[0], dustRT(o3[0], R, A, R1, A1))) > 0 {
				both["swap"] = (*cases)[len(*cases)-1].JSON()
				rep.Violate("C04/calc/add-remove-beats-swap", fmt.Sprintf("gave up %s external, gained %s native; swapping buys %s", g, dN, o3[0]), both)
			}
		}
	}
	// clause 3 on the removal
	if !backingKept(R1, A1, pu, new(big.Int).Sub(R1, wn), new(big.Int).Sub(A1, we), new(big.Int).Sub(pu, l)) {
		rep.Violate("C04/calc/remove-dilutes", fmt.Sprintf("removing %s of %s units paid (%s,%s) of (%s,%s)", l, pu, wn, we, R1, A1), rmCase.JSON())
	}
}

func calcRemoveBacking(rep *report.Report, r *chain.Rng, cases *[]CalcCase, next *int) {
	args := GenCalcArgs(r, 5)
	k, o := addCalc(rep, cases, next, 5, args)
	if k != 0 || args[4].Cmp(args[0]) > 0 {
		return
	}
	P, R, A, u := args[0], args[1], args[2], args[4]
	if o[0].Cmp(R) > 0 || o[1].Cmp(A) > 0 {
		return // the handler refuses (not enough assets)
	}
	rep.Count("c04.calc.remove-backing")
	if !backingKept(R, A, P, new(big.Int).Sub(R, o[0]), new(big.Int).Sub(A, o[1]), new(big.Int).Sub(P, u)) {
		rep.Violate("C04/calc/remove-dilutes", fmt.Sprintf("removing %s of %s units paid (%s,%s) of (%s,%s)", u, P, o[0], o[1], R, A), (*cases)[len(*cases)-1].JSON())
	}
}

// ---- round trips on the real application -----------------------------------------------------------

type c04Setup struct {
	Toks    []string
	Native  []*big.Int
	Ext     []*big.Int
	FeeDef  *big.Int
	FeeTok  map[string]*big.Int
	Pmtp    *big.Int
	ExtraLP bool
	ExtraN  *big.Int
	ExtraX  *big.Int
	Margin  bool // the pools are enabled for margin trading (no positions): the handlers take their margin branches
}

func genC04Setup(rng *chain.Rng, two bool) c04Setup {
	s := c04Setup{Toks: []string{"ceth"}, FeeTok: map[string]*big.Int{}}
	if two {
		s.Toks = []string{"cdash", "ceth"}
	}
	for range s.Toks {
		n := new(big.Int).Add(chain.E(18), RandAmount(rng, 33))
		x := RandAmount(rng, 33)
		if rng.Intn(2) == 0 {
			x = new(big.Int).Add(new(big.Int).Div(new(big.Int).Mul(n, big.NewInt(int64(1+rng.Intn(4000)))), big.NewInt(1000)), big.NewInt(1))
		}
		s.Native, s.Ext = append(s.Native, n), append(s.Ext, x)
	}
	s.FeeDef = RandRate(rng)
	if rng.Intn(3) == 0 {
		s.FeeDef = new(big.Int).Mul(big.NewInt(3), chain.E(15))
	}
	for _, t := range append([]string{"rowan"}, s.Toks...) {
		if rng.Intn(2) == 0 {
			s.FeeTok[t] = RandRate(rng)
		}
	}
	s.Pmtp = big.NewInt(0)
	if rng.Intn(2) == 0 {
		s.Pmtp = RandPmtp(rng, 1)
	}
	s.ExtraLP = rng.Intn(2) == 0
	s.ExtraN, s.ExtraX = RandAmount(rng, 30), RandAmount(rng, 30)
	s.Margin = rng.Intn(3) == 0
	return s
}

// build creates the chain: user0 creates the pools, user1 optionally adds liquidity; fee and ratio-shifting
// parameters are set through the real admin messages. Deterministic in s.
func (s c04Setup) build(h *History, nextID *int) *env.Env {
	e := env.New(env.Opts{NUsers: 4, Tokens: s.Toks})
	if h != nil {
		h.Env = e
	}
	e.BeginBlock()
	mustOK(e.UpdateRewardsParams(0, 0, 0, "", false), "rewards params")
	m := clptypes.MsgUpdateSwapFeeParamsRequest{Signer: e.Admin.Addr.String(), DefaultSwapFeeRate: dec(s.FeeDef)}
	for _, t := range append([]string{"rowan"}, s.Toks...) {
		if f, ok := s.FeeTok[t]; ok {
			m.TokenParams = append(m.TokenParams, &clptypes.SwapFeeTokenParams{Asset: t, SwapFeeRate: dec(f)})
		}
	}
	mustOK(e.Tx(e.Admin, &m), "swap fee params")
	pm := clptypes.MsgModifyPmtpRates{Signer: e.Admin.Addr.String(), RunningRate: dec(s.Pmtp).String()}
	mustOK(e.Tx(e.Admin, &pm), "pmtp rates")
	id := func(a chain.Account) int64 { return e.AcctID[a.Addr.String()] }
	for i, t := range s.Toks {
		asset := clptypes.NewAsset(t)
		m1 := clptypes.NewMsgCreatePool(e.Users[0].Addr, asset, env.U(s.Native[i]), env.U(s.Ext[i]))
		if h != nil {
			mustOK(recTx(h, nextID, i, e.Users[0], Msg{Tag: 1, Signer: id(e.Users[0]), A: e.DenomID[t], X: s.Native[i], Y: s.Ext[i]}, &m1), "create pool")
		} else {
			mustOK(e.Tx(e.Users[0], &m1), "create pool")
		}
	}
	if s.Margin {
		mustOK(e.Tx(e.Admin, &margintypes.MsgUpdatePools{Signer: e.Admin.Addr.String(), Pools: s.Toks}), "margin pools")
	}
	if s.ExtraLP {
		asset := clptypes.NewAsset(s.Toks[0])
		m2 := clptypes.NewMsgAddLiquidity(e.Users[1].Addr, asset, env.U(s.ExtraN), env.U(s.ExtraX))
		if h != nil {
			recTx(h, nextID, 5, e.Users[1], Msg{Tag: 2, Signer: id(e.Users[1]), A: e.DenomID[s.Toks[0]], X: s.ExtraN, Y: s.ExtraX}, &m2)
		} else {
			e.Tx(e.Users[1], &m2)
		}
	}
	return e
}

func (s c04Setup) desc() map[string]interface{} {
	ft := map[string]string{}
	for k, v := range s.FeeTok {
		ft[k] = v.String()
	}
	return map[string]interface{}{"template": "C04 round trip", "tokens": s.Toks, "native": bigs(s.Native), "external": bigs(s.Ext),
		"fee_default_1e18": s.FeeDef.String(), "fee_tokens_1e18": ft, "pmtp_1e18": s.Pmtp.String(), "extra_lp": s.ExtraLP,
		"extra_add": []string{s.ExtraN.String(), s.ExtraX.String()}, "pools_enabled_for_margin": s.Margin}
}

// netDelta returns the change of the account's balance between two states, with the rowan fees of nTx transactions added back.
func netDelta(pre, post env.ClpState, acct, denom int64, nTx int64) *big.Int {
	d := new(big.Int).Sub(balOf(post, acct, denom), balOf(pre, acct, denom))
	if denom == 0 {
		d.Add(d, new(big.Int).Mul(big.NewInt(nTx), chain.E(18)))
	}
	return d
}

// ScriptSwapRoundTrip: swap x from -> to, then swap everything received back.
func ScriptSwapRoundTrip(rep *report.Report, rng *chain.Rng, hid int, nextID *int) History {
	double := rng.Intn(3) == 0
	s := genC04Setup(rng, double)
	h := History{ID: hid, Desc: s.desc()}
	e := s.build(&h, nextID)
	u := e.Users[2]
	uid := e.AcctID[u.Addr.String()]
	from, to := "rowan", s.Toks[0]
	if double {
		from, to = s.Toks[0], s.Toks[1]
	} else if rng.Intn(2) == 0 {
		from, to = to, from
	}
	pool := poolOf(e.Snapshot(), e.DenomID[s.Toks[0]])
	amt := RandAmount(rng, 36)
	if rng.Intn(2) == 0 && pool != nil {
		base := pool.NB
		if from != "rowan" {
			base = pool.EB
		}
		amt = new(big.Int).Add(new(big.Int).Div(new(big.Int).Mul(base, big.NewInt(int64(1+rng.Intn(3000)))), big.NewInt(1000)), big.NewInt(1))
	}
	fid, tid := e.DenomID[from], e.DenomID[to]
	st0 := e.Snapshot()
	m1 := clptypes.NewMsgSwap(u.Addr, clptypes.NewAsset(from), clptypes.NewAsset(to), env.U(amt), env.U(big.NewInt(0)))
	r1 := recTx(&h, nextID, 10, u, Msg{Tag: 5, Signer: uid, A: fid, B: tid, X: amt, Y: big.NewInt(0)}, &m1)
	if r1.Code != 0 {
		rep.Count("c04.app.swap-rt.first-refused")
		return h
	}
	st1 := e.Snapshot()
	got := netDelta(st0, st1, uid, tid, 1)
	if got.Sign() <= 0 {
		rep.Count("c04.app.swap-rt.nothing-received")
		return h
	}
	m2 := clptypes.NewMsgSwap(u.Addr, clptypes.NewAsset(to), clptypes.NewAsset(from), env.U(got), env.U(big.NewInt(0)))
	r2 := recTx(&h, nextID, 11, u, Msg{Tag: 5, Signer: uid, A: tid, B: fid, X: got, Y: big.NewInt(0)}, &m2)
	if r2.Code != 0 {
		rep.Count("c04.app.swap-rt.second-refused")
		return h
	}
	st2 := e.Snapshot()
	net := netDelta(st0, st2, uid, fid, 2)
	if double {
		rep.Count("c04.app.swap-rt.double")
	} else {
		rep.Count("c04.app.swap-rt.single")
	}
	if net.Sign() > 0 {
		rep.Violate("C04/app/swap-roundtrip-profit", fmt.Sprintf("swapping %s %s -> %s and back left the trader %s %s richer", amt, from, to, net, from), replayOf(h, 11))
	}
	if other := netDelta(st0, st2, uid, tid, 2); other.Sign() != 0 {
		rep.Violate("C04/app/swap-roundtrip-residue", fmt.Sprintf("round trip left %s of %s", other, to), replayOf(h, 11))
	}
	return h
}

// ScriptAddRemove: a fresh provider adds (r, a) and immediately removes the units received; a twin chain
// with the same set-up swaps the given-up amount publicly.
func ScriptAddRemove(rep *report.Report, rng *chain.Rng, hid int, nextID *int) History {
	s := genC04Setup(rng, false)
	h := History{ID: hid, Desc: s.desc()}
	e := s.build(&h, nextID)
	tok := s.Toks[0]
	tid := e.DenomID[tok]
	asset := clptypes.NewAsset(tok)
	u := e.Users[2]
	uid := e.AcctID[u.Addr.String()]
	st0 := e.Snapshot()
	p0 := poolOf(st0, tid)
	var rr, aa *big.Int
	zero := big.NewInt(0)
	rel := func(b *big.Int) *big.Int {
		return new(big.Int).Add(new(big.Int).Div(new(big.Int).Mul(b, big.NewInt(int64(1+rng.Intn(2000)))), big.NewInt(1000)), big.NewInt(1))
	}
	switch rng.Intn(6) {
	case 0:
		rr, aa = rel(p0.NB), zero
	case 1:
		rr, aa = zero, rel(p0.EB)
	case 2:
		rr, aa = RandAmount(rng, 36), zero
	case 3:
		rr, aa = zero, RandAmount(rng, 36)
	case 4:
		d := big.NewInt(int64(1 + rng.Intn(50)))
		rr, aa = new(big.Int).Div(p0.NB, d), new(big.Int).Div(p0.EB, d)
	default:
		rr, aa = RandAmount(rng, 36), RandAmount(rng, 36)
	}
	m1 := clptypes.NewMsgAddLiquidity(u.Addr, asset, env.U(rr), env.U(aa))
	r1 := recTx(&h, nextID, 10, u, Msg{Tag: 2, Signer: uid, A: tid, X: rr, Y: aa}, &m1)
	if r1.Code != 0 {
		rep.Count("c04.app.add-remove.add-refused")
		return h
	}
	st1 := e.Snapshot()
	lp := lpOf(st1, tid, uid)
	if lp == nil || lp.Units.Sign() == 0 {
		rep.Count("c04.app.add-remove.no-units")
		return h
	}
	var r2 chain.TxResult
	if rng.Intn(3) == 0 {
		m2 := clptypes.NewMsgRemoveLiquidity(u.Addr, asset, sdk.NewInt(10000), sdk.NewInt(0))
		r2 = recTx(&h, nextID, 11, u, Msg{Tag: 3, Signer: uid, A: tid, X: big.NewInt(10000), Y: big.NewInt(0)}, &m2)
	} else {
		m2 := clptypes.NewMsgRemoveLiquidityUnits(u.Addr, asset, env.U(lp.Units))
		r2 = recTx(&h, nextID, 11, u, Msg{Tag: 4, Signer: uid, A: tid, X: lp.Units}, &m2)
	}
	if r2.Code != 0 {
		rep.Count("c04.app.add-remove.remove-refused")
		return h
	}
	st2 := e.Snapshot()
	dN, dE := netDelta(st0, st2, uid, 0, 2), netDelta(st0, st2, uid, tid, 2)
	R0, A0 := new(big.Int).Add(p0.NB, p0.NL), new(big.Int).Add(p0.EB, p0.EL)
	R1, A1 := new(big.Int).Add(R0, rr), new(big.Int).Add(A0, aa)
	rep.Count("c04.app.add-remove")
	if dN.Cmp(dustRT(rr, R0, A0, R1, A1)) > 0 && dE.Cmp(dustRT(aa, A0, R0, A1, R1)) > 0 {
		rep.Violate("C04/app/add-remove-both-more", fmt.Sprintf("gave (%s,%s), net (%s,%s)", rr, aa, dN, dE), replayOf(h, 11))
	}
	// twin: the public swap of the given-up amount
	twin := func(from, to string, g *big.Int) *big.Int {
		e2 := s.build(nil, nil)
		u2 := e2.Users[2]
		a0 := e2.Snapshot()
		res := e2.Swap(u2, from, to, g, big.NewInt(0))
		if res.Code != 0 {
			return nil
		}
		return netDelta(a0, e2.Snapshot(), e2.AcctID[u2.Addr.String()], e2.DenomID[to], 1)
	}
	// the equivalent (internal) swap of the add, from the real calculator on the pre-state with the public fee rates
	tooMuch := false
	func() {
		defer func() {
			if recover() != nil {
				tooMuch = true
			}
		}()
		fsell := s.FeeDef
		if f, ok := s.FeeTok["rowan"]; ok {
			fsell = f
		}
		fbuy := s.FeeDef
		if f, ok := s.FeeTok[tok]; ok {
			fbuy = f
		}
		_, _, status, sw, err := clpkeeper.CalculatePoolUnits(env.U(p0.Units), env.U(R0), env.U(A0), env.U(rr), env.U(aa), dec(fsell), dec(fbuy), dec(s.Pmtp))
		if err != nil || sw == (sdk.Uint{}) || sw.IsZero() {
			return
		}
		swb := ub(sw)
		if int(status) == 0 { // sell native
			kk, oo := RunCalc(1, []*big.Int{boolBig(false), R0, swb, A0, s.Pmtp, fsell})
			tooMuch = kk != 0 || mulBig(oo[0], big.NewInt(10)).Cmp(mulBig(A0, big.NewInt(9))) > 0
		} else if int(status) == 1 {
			kk, oo := RunCalc(1, []*big.Int{boolBig(true), A0, swb, R0, s.Pmtp, fbuy})
			tooMuch = kk != 0 || mulBig(oo[0], big.NewInt(10)).Cmp(mulBig(R0, big.NewInt(9))) > 0
		}
	}()
	if tooMuch {
		rep.Count("c04.app.vs-swap.exempt-90pct")
		return h
	}
	if dN.Sign() < 0 && dE.Sign() > 0 {
		g := new(big.Int).Neg(dN)
		if b := twin("rowan", tok, g); b != nil && mulBig(b, big.NewInt(10)).Cmp(mulBig(A0, big.NewInt(9))) <= 0 {
			rep.Count("c04.app.vs-swap.sell-native")
			if dE.Cmp(new(big.Int).Add(b, dustRT(b, A0, R0, A1, R1))) > 0 {
				rep.Violate("C04/app/add-remove-beats-swap", fmt.Sprintf("add (%s,%s)+remove gave up %s rowan for %s %s; the public swap of %s rowan buys %s", rr, aa, g, dE, tok, g, b), replayOf(h, 11))
			}
		}
	}
	if dE.Sign() < 0 && dN.Sign() > 0 {
		g := new(big.Int).Neg(dE)
		if b := twin(tok, "rowan", g); b != nil && mulBig(b, big.NewInt(10)).Cmp(mulBig(R0, big.NewInt(9))) <= 0 {
			rep.Count("c04.app.vs-swap.buy-native")
			if dN.Cmp(new(big.Int).Add(b, dustRT(b, R0, A0, R1, A1))) > 0 {
				rep.Violate("C04/app/add-remove-beats-swap", fmt.Sprintf("add (%s,%s)+remove gave up %s %s for %s rowan; the public swap of %s %s buys %s", rr, aa, g, tok, dN, g, tok, b), replayOf(h, 11))
			}
		}
	}
	return h
}

// MonBacking — clause 3: with ratio shifting off, no successful user liquidity or swap message lowers
// sqrt(R*A)/P of any pool by more than dust.
func MonBacking(rep *report.Report, h History) {
	for _, s := range h.Steps {
		if s.Kind != 1 || !s.OK || s.Pre.Params.Pmtp.Sign() != 0 {
			continue
		}
		if s.Msg.Tag < 2 || s.Msg.Tag > 5 {
			continue
		}
		for _, p0 := range s.Pre.Pools {
			p1 := poolOf(s.Post, p0.Asset)
			if p1 == nil {
				continue
			}
			R0, A0 := new(big.Int).Add(p0.NB, p0.NL), new(big.Int).Add(p0.EB, p0.EL)
			R1, A1 := new(big.Int).Add(p1.NB, p1.NL), new(big.Int).Add(p1.EB, p1.EL)
			if R0.Sign() == 0 || A0.Sign() == 0 {
				continue // one-sided pool: F-14 territory, C02
			}
			rep.Count("c04.backing-checks")
			if !backingKept(R0, A0, p0.Units, R1, A1, p1.Units) {
				rep.Violate("C04/app/backing-lowered/"+MsgNames[s.Msg.Tag], fmt.Sprintf("pool %d: (R,A,P) %s,%s,%s -> %s,%s,%s", p0.Asset, R0, A0, p0.Units, R1, A1, p1.Units), replayOf(h, s.StepNo))
			}
		}
	}
}

// C04 — no free value.
func C04(c Ctx) *report.Report {
	rep := report.New("C04", c.Seed, c.Tier)
	rng := chain.NewRng(c.Seed + 4)
	next := 0
	var hs []History
	for i := 0; i < c.N(60, 1500); i++ {
		hs = append(hs, ScriptSwapRoundTrip(rep, rng, 4000+2*i, &next))
		hs = append(hs, ScriptAddRemove(rep, rng, 4001+2*i, &next))
		rep.ImplTraces += 2
	}
	// message histories with ratio shifting off: backing per unit across every liquidity / swap message
	o := clpOpts(c, 16, 600)
	// (two thirds of the worlds with a liquidity-removal lock period: removals then go through unlock requests, and a
	// provider must not be able to cash the same units in twice)
	o.Pmtp, o.Lppd, o.Rewards, o.Epochs, o.Locks = false, false, false, false, true
	o.Weights = map[int]int{1: 2, 2: 8, 3: 4, 4: 5, 5: 8, 6: 5, 7: 1, 8: 0, 9: 0}
	hs = append(hs, RunClpHistories(c, rep, rng, o, &next)...)
	// pools that carry the liabilities and custody of real margin positions: the swaps and liquidity changes of margin
	// histories (incl. removals by units), against the same model and the same backing-per-unit clause
	{
		mnext := 7000000
		for _, mh := range RunMarginHistories(c, rep, rng, c.N(24, 300), 45, &mnext) {
			if len(mh.ClpSteps) > 0 {
				hs = append(hs, History{ID: 6000 + mh.ID, Env: mh.Env, Steps: mh.ClpSteps, Desc: mh.Desc})
			}
		}
	}
	for _, h := range hs {
		MonBacking(rep, h)
		monUnitsBut14(rep, h) // units must be what the providers hold (finding F-14 is C02's, known there)
		if len(rep.Samples) < 2 && len(h.Steps) > 3 {
			rep.Sample(replayOf(h, 11))
		}
	}
	// the calculators composed into round trips
	var calc []CalcCase
	cn := 0
	for i := 0; i < c.N(700, 30000); i++ {
		switch i % 5 {
		case 0:
			calcSwapRoundTrip(rep, rng, &calc, &cn)
		case 1:
			calcSwapRoundTripPool(rep, rng, &calc, &cn)
		case 2, 3:
			calcAddRemove(rep, rng, &calc, &cn)
		default:
			calcRemoveBacking(rep, rng, &calc, &cn)
		}
	}
	for i := range calc {
		calc[i].ID += 1000000
		rep.CaseIndex[itoa(calc[i].ID)] = calc[i].JSON()
	}
	rep.Evaluations = next + len(calc)
	rep.DistinctNontrivial = countNontrivial(hs) + len(calc)
	rep.Rule = "round trips on the real application (swap + swap back over all three routes; a fresh provider's add + removal of the units received, by units or by 10000 basis points, with a twin chain " +
		"executing the public swap of the given-up amount): pools 1e18..1e33 deep with external side 1..1e33 or within 0.001x..4x of the native side, default and per-token fee rates in [0,1] (incl. 0, 1e-18, 0.003, 0.5, 1), " +
		"ratio-shifting rate 0 or in [0,1], amounts log-uniform up to 1e36 or 0.001x..3x of the pool; message histories with ratio shifting off for the backing clause; " +
		"and the real calculators composed into the same round trips (depths/units 1..1e33, deposits up to 2^128). Every transition and calculator call is also replayed by the Coq model."
	writeHistFiles(c, rep, "cases_C04", hs, 450)
	writeCalcFiles(c, rep, "cases_C04_calc", calc, 800)
	return rep
}
