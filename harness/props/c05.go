package props

import (
	"fmt"
	"math/big"

	"sifverif/chain"
	"sifverif/env"
	"sifverif/report"
)

func valPower(s env.BridgeState, v int64) (int64, bool) {
	for _, x := range s.Validators {
		if x[0] == v {
			return x[1], x[2] != 0
		}
	}
	return 0, false
}

// MonProphecy — C05: threshold, gating, finality.
func MonProphecy(rep *report.Report, h BHistory) {
	for _, s := range h.Steps {
		if s.Kind != 1 && s.Kind != 6 {
			continue
		}
		pid, val, cid := s.A[0], s.A[1], s.A[2]
		pre, post := prophecyOf(s.Pre, pid), prophecyOf(s.Post, pid)
		_, bonded := valPower(s.Pre, val)
		wl := inList(val, s.Pre.Whitelist)
		dup := pre != nil && func() bool { _, ok := pre.VClaims[val]; return ok }()
		final := pre != nil && pre.Status != 0
		if s.OK && (!wl || !bonded) {
			rep.Violate("C05/claim-accepted-from-outsider", fmt.Sprintf("claim by validator %d accepted (whitelisted=%v bonded=%v)", val, wl, bonded), h.replay(s.StepNo))
		}
		if s.OK && dup {
			rep.Violate("C05/duplicate-claim-accepted", fmt.Sprintf("validator %d counted twice on prophecy %d", val, pid), h.replay(s.StepNo))
		}
		if final {
			changed := s.OK || post == nil || post.Status != pre.Status || post.Final != pre.Final
			for _, b := range s.Post.Balances {
				if b.Acct == val && b.Denom == 0 {
					continue
				}
				if bBalOf(s.Pre, b.Acct, b.Denom).Cmp(b.Amt) != 0 {
					changed = true
				}
			}
			if changed {
				rep.Violate("C05/finalised-prophecy-changed", fmt.Sprintf("claim on finalised prophecy %d had an effect", pid), h.replay(s.StepNo))
			}
			continue
		}
		if !s.OK || post == nil {
			continue
		}
		if post.Status == 1 && (pre == nil || pre.Status == 0) {
			// success: currently whitelisted, bonded validators with this content must hold >= 70% of whitelisted bonded power
			forit, total := powerBehind(s, post)
			_ = cid
			if forit*10 < total*7 || total == 0 {
				rep.Violate("C05/success-below-threshold", fmt.Sprintf("prophecy %d became successful with %d of %d whitelisted bonded power behind the final claim", pid, forit, total), h.replay(s.StepNo))
			}
		}
	}
}

// powerBehind: the bonded power of the distinct whitelisted validators that claimed the final content of a prophecy, and
// the bonded power of all distinct whitelisted validators, at the state the step started from.
func powerBehind(s BStep, post *env.Prophecy) (forit, total int64) {
	for _, v := range s.Pre.Validators {
		if v[2] != 0 && inList(v[0], s.Pre.Whitelist) {
			total += v[1]
		}
	}
	seen := map[int64]bool{}
	for _, v := range post.Claims[post.Final] {
		if seen[v] {
			continue
		}
		seen[v] = true
		p, b := valPower(s.Pre, v)
		if b && inList(v, s.Pre.Whitelist) {
			forit += p
		}
	}
	return
}

// MonWhitelist — C05 "claims are accepted only from currently whitelisted validators": a whitelist edit by the oracle
// administrator is in force with the transaction that carries it: after an accepted removal the validator is not on
// the list (however often it stood there), after an accepted addition it is.
func MonWhitelist(rep *report.Report, h BHistory) {
	for _, s := range h.Steps {
		if s.Kind != 3 || !s.OK {
			continue
		}
		val := s.A[1]
		if on := inList(val, s.Post.Whitelist); on != s.Add {
			rep.Violate("C05/whitelist-edit-not-in-force", fmt.Sprintf("after an accepted whitelist %s of validator %d the validator is on the list: %v (list before %v, after %v)",
				map[bool]string{true: "addition", false: "removal"}[s.Add], val, on, s.Pre.Whitelist, s.Post.Whitelist), h.replay(s.StepNo))
		}
	}
}

// MonCredit — C06: each event credited at most once, as agreed.
func MonCredit(rep *report.Report, h BHistory) {
	credited := map[int64]bool{}
	for _, s := range h.Steps {
		if s.Kind != 1 && s.Kind != 6 {
			continue
		}
		pid := s.A[0]
		pre, post := prophecyOf(s.Pre, pid), prophecyOf(s.Post, pid)
		becameSuccess := s.OK && post != nil && post.Status == 1 && (pre == nil || pre.Status == 0)
		// expected balance changes
		want := map[[2]int64]*big.Int{}
		add := func(a, d int64, x *big.Int) {
			k := [2]int64{a, d}
			if want[k] == nil {
				want[k] = new(big.Int)
			}
			want[k].Add(want[k], x)
		}
		add(s.A[1], 0, new(big.Int).Neg(s.Fee))
		var mintDenom int64 = -1
		mintAmt := new(big.Int)
		if becameSuccess {
			ct := s.Cont[post.Final]
			mintDenom = ct.Symbol
			if ct.Type == 1 {
				mintDenom = ct.Symbol + 1000
			}
			mintAmt = ct.Amount
			add(ct.Receiver, mintDenom, ct.Amount)
			if forit, total := powerBehind(s, post); forit*10 < total*7 || total == 0 {
				rep.Violate("C06/credited-without-consensus", fmt.Sprintf("event %d was credited with %d of %d whitelisted bonded power behind the credited content", pid, forit, total), h.replay(s.StepNo))
			}
			if credited[pid] {
				rep.Violate("C06/credited-twice", fmt.Sprintf("event %d credited a second time", pid), h.replay(s.StepNo))
			}
			credited[pid] = true
			if ct.Type == 1 {
				if !inList(mintDenom, s.Post.Peggy) {
					rep.Violate("C06/pegged-denom-not-burnable", fmt.Sprintf("denom %s was credited for a lock but is not on the peggy list", env.SymbolName(mintDenom)), h.replay(s.StepNo))
				}
			}
		}
		for id := range h.Env.AcctOf {
			for _, b := range append(append([]env.Bal{}, s.Pre.Supply...), s.Post.Supply...) {
				d := b.Denom
				got := new(big.Int).Sub(bBalOf(s.Post, id, d), bBalOf(s.Pre, id, d))
				w := want[[2]int64{id, d}]
				if w == nil {
					w = new(big.Int)
				}
				if got.Cmp(w) != 0 {
					rep.Violate("C06/unexpected-balance-change", fmt.Sprintf("account %d denom %s changed by %s, expected %s (claim on event %d)", id, env.SymbolName(d), got, w, pid), h.replay(s.StepNo))
				}
			}
		}
		for _, b := range s.Post.Supply {
			got := new(big.Int).Sub(b.Amt, bSupply(s.Pre, b.Denom))
			w := new(big.Int)
			if b.Denom == mintDenom {
				w = mintAmt
			}
			if b.Denom == 0 {
				continue // rowan: x/mint inflation, fees
			}
			if got.Cmp(w) != 0 {
				rep.Violate("C06/unexpected-supply-change", fmt.Sprintf("supply of %s changed by %s, expected %s", env.SymbolName(b.Denom), got, w), h.replay(s.StepNo))
			}
		}
	}
}

// C05 — prophecies need the threshold and are final.
func C05(c Ctx) *report.Report {
	rep := report.New("C05", c.Seed, c.Tier)
	rng := chain.NewRng(c.Seed + 5)
	next := 0
	hs := RunBridgeHistories(c, rep, rng, BOpts{Histories: c.N(36, 1500), Steps: 26, ClaimW: 10, LockW: 1, AdminW: 3}, &next)
	for _, h := range hs {
		MonProphecy(rep, h)
		MonWhitelist(rep, h)
		if len(rep.Samples) < 2 && len(h.Steps) > 3 {
			rep.Sample(h.replay(3))
		}
	}
	// float boundary: 10*p >= 7*q is what float64(p)/float64(q) >= 0.7 computes, for powers below 2^46
	bad := 0
	for i := 0; i < c.N(20000, 400000); i++ {
		q := int64(1) + rng.Int63n(1<<46)
		p := q * 7 / 10
		for d := int64(-2); d <= 2; d++ {
			pp := p + d
			if pp < 0 {
				continue
			}
			f := float64(pp)/float64(q) >= 0.7
			z := 10*pp >= 7*q
			if f != z {
				bad++
				rep.Violate("C05/float-threshold-differs", fmt.Sprintf("p=%d q=%d float=%v exact=%v", pp, q, f, z), map[string]interface{}{"p": pp, "q": q})
			}
		}
	}
	rep.Distribution["float_threshold_boundary_points"] = c.N(20000, 400000) * 5
	rep.Evaluations = next
	rep.DistinctNontrivial = countBNontrivial(hs)
	rep.Rule = bridgeRule
	writeBridgeFiles(c, rep, "cases_C05", hs, 400)
	return rep
}

const bridgeRule = "one case = one observed DeliverTx of a bridge message on the real app (validators created by the real MsgCreateValidator, 1-6 validators with powers incl. ties and 69/70/71% boundaries, some never bonded, random whitelist subsets; claims about 1-3 events with conflicting / duplicate / late contents, blocked receivers, zero amounts; oracle-admin whitelist add/remove, ceth-receiver updates, rescue, pause and blacklist interleaved; lock / burn by users); non-trivial = distinct successful transition"

// C06 — each event credited at most once.
func C06(c Ctx) *report.Report {
	rep := report.New("C06", c.Seed, c.Tier)
	rng := chain.NewRng(c.Seed + 6)
	next := 0
	hs := RunBridgeHistories(c, rep, rng, BOpts{Histories: c.N(36, 1500), Steps: 26, ClaimW: 12, LockW: 1, AdminW: 2}, &next)
	for _, h := range hs {
		MonCredit(rep, h)
		if len(rep.Samples) < 2 && len(h.Steps) > 3 {
			rep.Sample(h.replay(3))
		}
	}
	rep.Evaluations = next
	rep.DistinctNontrivial = countBNontrivial(hs)
	rep.Rule = bridgeRule
	writeBridgeFiles(c, rep, "cases_C06", hs, 400)
	return rep
}
