package props

import (
	"fmt"
	"math/big"
	"sort"
	"strings"

	"sifverif/chain"
	"sifverif/env"
	"sifverif/report"
)

// MonPeg — C07: exact debits on lock / burn, fee routing, supply, guards, one event with the message values.
func MonPeg(rep *report.Report, h BHistory) {
	for _, s := range h.Steps {
		if s.Kind == 7 {
			// the blacklist is what the administrator's last accepted message says — as a set of Ethereum accounts
			set := func(l []int64) string {
				m := map[int64]bool{}
				for _, x := range l {
					m[x] = true
				}
				var o []int64
				for x := range m {
					o = append(o, x)
				}
				sort.Slice(o, func(i, j int) bool { return o[i] < o[j] })
				return fmt.Sprint(o)
			}
			want := set(s.Pre.Blacklist)
			if s.OK {
				want = set(s.A[1:])
			}
			if got := set(s.Post.Blacklist); got != want {
				rep.Violate("C07/blacklist-not-as-set", fmt.Sprintf("blacklisted accounts after the message: %s, expected %s (accepted=%v)", got, want, s.OK), h.replay(s.StepNo))
			}
			if s.OK != s.Add {
				rep.Violate("C07/blacklist-update-authorisation", fmt.Sprintf("SetBlacklist accepted=%v for a signer with role=%v", s.OK, s.Add), h.replay(s.StepNo))
			}
			continue
		}
		if s.Kind != 2 {
			continue
		}
		sender, eth, sym := s.A[0], s.A[1], s.A[2]
		ceth := env.SymbolID("ceth")
		want := map[[2]int64]*big.Int{}
		add := func(a, d int64, x *big.Int) {
			k := [2]int64{a, d}
			if want[k] == nil {
				want[k] = new(big.Int)
			}
			want[k].Add(want[k], x)
		}
		add(sender, 0, new(big.Int).Neg(s.Fee))
		if s.OK {
			peggy := inList(sym, s.Pre.Peggy)
			if s.Pre.Paused {
				rep.Violate("C07/executed-while-paused", "lock/burn executed while the bridge is paused", h.replay(s.StepNo))
			}
			if inList(eth, s.Pre.Blacklist) {
				rep.Violate("C07/executed-to-blacklisted", "lock/burn towards a blacklisted Ethereum address executed", h.replay(s.StepNo))
			}
			if peggy != s.Burn {
				rep.Violate("C07/native-pegged-mixup", fmt.Sprintf("burn=%v of a token with pegged=%v executed", s.Burn, peggy), h.replay(s.StepNo))
			}
			add(sender, sym, new(big.Int).Neg(s.Amt))
			add(sender, ceth, new(big.Int).Neg(s.Ceth))
			recv := int64(env.BridgeModuleID)
			if s.Pre.CethRecv >= 0 {
				recv = s.Pre.CethRecv
			}
			add(recv, ceth, s.Ceth)
			// one event carrying the message values
			if len(s.Events) != 1 {
				rep.Violate("C07/event-count", fmt.Sprintf("%d lock/burn events emitted", len(s.Events)), h.replay(s.StepNo))
			} else {
				ev := s.Events[0]
				for _, must := range []string{"amount=" + s.Amt.String(), "symbol=" + env.SymbolName(sym), "ceth_amount=" + s.Ceth.String(),
					"cosmos_sender=" + h.Env.AcctOf[sender]} {
					if !strings.Contains(ev, must) {
						rep.Violate("C07/event-values", fmt.Sprintf("event %q lacks %q", ev, must), h.replay(s.StepNo))
					}
				}
				kind := map[bool]string{true: "burn:", false: "lock:"}[s.Burn]
				if !strings.HasPrefix(ev, kind) {
					rep.Violate("C07/event-values", fmt.Sprintf("event %q has the wrong type", ev), h.replay(s.StepNo))
				}
			}
		}
		for id := range h.Env.AcctOf {
			for _, b := range s.Post.Supply {
				d := b.Denom
				got := new(big.Int).Sub(bBalOf(s.Post, id, d), bBalOf(s.Pre, id, d))
				w := want[[2]int64{id, d}]
				if w == nil {
					w = new(big.Int)
				}
				if got.Cmp(w) != 0 {
					sig := "C07/balance"
					if !s.OK {
						sig = "C07/failed-message-changed-balance"
					}
					rep.Violate(sig, fmt.Sprintf("account %d denom %s changed by %s, expected %s", id, env.SymbolName(d), got, w), h.replay(s.StepNo))
				}
			}
		}
		for _, b := range s.Post.Supply {
			if b.Denom == 0 {
				continue
			}
			got := new(big.Int).Sub(b.Amt, bSupply(s.Pre, b.Denom))
			w := new(big.Int)
			if s.OK && b.Denom == sym {
				w.Neg(s.Amt)
			}
			if got.Cmp(w) != 0 {
				rep.Violate("C07/supply", fmt.Sprintf("supply of %s changed by %s, expected %s", env.SymbolName(b.Denom), got, w), h.replay(s.StepNo))
			}
		}
	}
	// supply equation over the whole history, per denom: final = initial + credits - locks - burns
	if len(h.Steps) > 0 {
		first, last := h.Steps[0].Pre, h.Steps[len(h.Steps)-1].Post
		for _, b := range last.Supply {
			if b.Denom == 0 || b.Denom == env.SymbolID("stake") {
				continue
			}
			exp := new(big.Int).Set(bSupply(first, b.Denom))
			for _, s := range h.Steps {
				if !s.OK {
					continue
				}
				switch s.Kind {
				case 2:
					if s.A[2] == b.Denom {
						exp.Sub(exp, s.Amt)
					}
				case 1:
					pre, post := prophecyOf(s.Pre, s.A[0]), prophecyOf(s.Post, s.A[0])
					if post != nil && post.Status == 1 && (pre == nil || pre.Status == 0) {
						ct := s.Cont[post.Final]
						d := ct.Symbol
						if ct.Type == 1 {
							d += 1000
						}
						if d == b.Denom {
							exp.Add(exp, ct.Amount)
						}
					}
				}
			}
			if exp.Cmp(b.Amt) != 0 {
				rep.Violate("C07/supply-equation", fmt.Sprintf("supply of %s is %s, genesis + credits - locks - burns = %s", env.SymbolName(b.Denom), b.Amt, exp), h.replay(len(h.Steps)))
			}
		}
	}
}

// C07 — peg supply conservation.
func C07(c Ctx) *report.Report {
	rep := report.New("C07", c.Seed, c.Tier)
	rng := chain.NewRng(c.Seed + 7)
	next := 0
	hs := RunBridgeHistories(c, rep, rng, BOpts{Histories: c.N(36, 1500), Steps: 26, ClaimW: 4, LockW: 8, AdminW: 3, Pause: true}, &next)
	for _, h := range hs {
		MonPeg(rep, h)
		if len(rep.Samples) < 2 && len(h.Steps) > 3 {
			rep.Sample(h.replay(3))
		}
	}
	rep.Evaluations = next
	rep.DistinctNontrivial = countBNontrivial(hs)
	rep.Rule = bridgeRule + "; lock/burn-heavy mix with pause toggles, blacklist, fee receiver set/unset, the fee token itself burned, senders short of either coin"
	writeBridgeFiles(c, rep, "cases_C07", hs, 400)
	return rep
}
