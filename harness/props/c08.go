package props

import (
	"bytes"
	"fmt"
	"math/big"
	"os"
	"path/filepath"
	"regexp"
	"strings"

	sifapp "github.com/Sifchain/sifnode/app"
	admintypes "github.com/Sifchain/sifnode/x/admin/types"
	clptypes "github.com/Sifchain/sifnode/x/clp/types"
	ethbridgetypes "github.com/Sifchain/sifnode/x/ethbridge/types"
	margintypes "github.com/Sifchain/sifnode/x/margin/types"
	oracletypes "github.com/Sifchain/sifnode/x/oracle/types"
	tokenregistrytypes "github.com/Sifchain/sifnode/x/tokenregistry/types"
	"github.com/cosmos/cosmos-sdk/crypto/keys/ed25519"
	sdk "github.com/cosmos/cosmos-sdk/types"
	banktypes "github.com/cosmos/cosmos-sdk/x/bank/types"
	minttypes "github.com/cosmos/cosmos-sdk/x/mint/types"
	stakingtypes "github.com/cosmos/cosmos-sdk/x/staking/types"

	"sifverif/chain"
	"sifverif/env"
	"sifverif/extract"
	"sifverif/report"
)

// signer kinds of the matrix
var signerKinds = []string{"none", "CLPDEX", "PMTPREWARDS", "TOKENREGISTRY", "ETHBRIDGE", "ADMIN", "MARGIN", "ORACLE_ADMIN", "CLP_WHITELIST", "all-but-the-right-one"}

var roleCode = map[string]int64{"CLPDEX": 1, "PMTPREWARDS": 2, "TOKENREGISTRY": 3, "ETHBRIDGE": 4, "ADMIN": 5, "MARGIN": 6}
var roleType = map[string]admintypes.AdminType{"CLPDEX": admintypes.AdminType_CLPDEX, "PMTPREWARDS": admintypes.AdminType_PMTPREWARDS,
	"TOKENREGISTRY": admintypes.AdminType_TOKENREGISTRY, "ETHBRIDGE": admintypes.AdminType_ETHBRIDGE, "ADMIN": admintypes.AdminType_ADMIN, "MARGIN": admintypes.AdminType_MARGIN}

var permissionTexts = []string{"enough permissions", "unauthorised signer", "permission denied", "only admin account can", "not an admin account",
	"does not have permission", "signer not authorised", "not admin account", "unauthorised"}

func refusedForPermission(log string) bool {
	l := strings.ToLower(log)
	for _, t := range permissionTexts {
		if strings.Contains(l, t) {
			return true
		}
	}
	return false
}

// c08World: a chain with one account per role (+ one holding every role but one, per role).
type c08World struct {
	*env.Env
	holder map[string]chain.Account // role -> account that holds exactly that role
	allBut map[string]chain.Account // role -> account holding every role except it
	nobody chain.Account
	trader chain.Account
	ids    map[string]int64
	admins [][2]int64
	oracle int64
	clpWL  []int64
}

var c08Roles = []string{"CLPDEX", "PMTPREWARDS", "TOKENREGISTRY", "ETHBRIDGE", "ADMIN", "MARGIN", "ORACLE_ADMIN", "CLP_WHITELIST"}

// the accounts of a world (without a chain)
func newC08Accounts() *c08World {
	w := &c08World{holder: map[string]chain.Account{}, allBut: map[string]chain.Account{}, ids: map[string]int64{}}
	for _, r := range c08Roles {
		w.holder[r] = chain.NewAccount("holder-" + r)
		w.allBut[r] = chain.NewAccount("allbut-" + r)
	}
	w.nobody = chain.NewAccount("nobody")
	w.trader = chain.NewAccount("trader")
	return w
}

func newC08World() *c08World {
	w := newC08Accounts()
	roles := c08Roles
	w.Env = env.New(env.Opts{NUsers: 2, Tokens: []string{"ceth", "cusdc"}, Transform: func(g *chain.Genesis) {
		funds := sdk.NewIntFromBigInt(chain.E(30))
		accts := []chain.Account{w.nobody, w.trader}
		for _, r := range roles {
			accts = append(accts, w.holder[r], w.allBut[r])
		}
		for _, a := range accts {
			g.Balances[a.Addr.String()] = sdk.NewCoins(sdk.NewCoin("rowan", funds), sdk.NewCoin("ceth", funds), sdk.NewCoin("cusdc", funds), sdk.NewCoin("stake", funds)).Sort()
		}
		g.Admins = nil
		for r, t := range roleType {
			g.Admins = append(g.Admins, &admintypes.AdminAccount{AdminType: t, AdminAddress: w.holder[r].Addr.String()})
			for _, r2 := range roles {
				if r2 != r {
					g.Admins = append(g.Admins, &admintypes.AdminAccount{AdminType: t, AdminAddress: w.allBut[r2].Addr.String()})
				}
			}
		}
		// harness admin keeps all roles too (set-up messages)
		g.Admins = append(g.Admins, env.AllAdminRoles(chain.NewAccount("admin").Addr.String())...)
		var wl []string
		wl = append(wl, w.holder["CLP_WHITELIST"].Addr.String())
		for _, r2 := range roles {
			if r2 != "CLP_WHITELIST" {
				wl = append(wl, w.allBut[r2].Addr.String())
			}
		}
		g.Transform = func(app *sifapp.SifchainApp, gs sifapp.GenesisState) sifapp.GenesisState {
			var cg clptypes.GenesisState
			app.AppCodec().MustUnmarshalJSON(gs[clptypes.ModuleName], &cg)
			cg.AddressWhitelist = wl
			gs[clptypes.ModuleName] = app.AppCodec().MustMarshalJSON(&cg)
			// a single oracle admin account: the ORACLE_ADMIN holder (the all-but accounts cannot hold it)
			og := oracletypes.GenesisState{AdminAddress: w.holder["ORACLE_ADMIN"].Addr.String(), AddressWhitelist: []string{sdk.ValAddress(w.trader.Addr).String()}}
			gs[oracletypes.ModuleName] = app.AppCodec().MustMarshalJSON(&og)
			return gs
		}
	}})
	return w
}

// privileged message number idx of the table, signed by sg
func (w *c08World) build(method string, sg chain.Account) sdk.Msg {
	s := sg.Addr.String()
	one := sdk.OneDec()
	u := sdk.NewUint(1000)
	switch method {
	case "admin.AddAccount":
		return &admintypes.MsgAddAccount{Signer: s, Account: &admintypes.AdminAccount{AdminType: admintypes.AdminType_CLPDEX, AdminAddress: w.nobody.Addr.String()}}
	case "admin.RemoveAccount":
		return &admintypes.MsgRemoveAccount{Signer: s, Account: &admintypes.AdminAccount{AdminType: admintypes.AdminType_CLPDEX, AdminAddress: w.holder["CLPDEX"].Addr.String()}}
	case "admin.SetParams":
		return &admintypes.MsgSetParams{Signer: s, Params: &admintypes.Params{SubmitProposalFee: sdk.NewUint(7)}}
	case "clp.AddProviderDistributionPeriod":
		return &clptypes.MsgAddProviderDistributionPeriodRequest{Signer: s, DistributionPeriods: []*clptypes.ProviderDistributionPeriod{{
			DistributionPeriodBlockRate: sdk.NewDecWithPrec(1, 2), DistributionPeriodStartBlock: 100, DistributionPeriodEndBlock: 200, DistributionPeriodMod: 1}}}
	case "clp.AddRewardPeriod":
		return &clptypes.MsgAddRewardPeriodRequest{Signer: s, RewardPeriods: []*clptypes.RewardPeriod{{RewardPeriodId: "x", RewardPeriodStartBlock: 100,
			RewardPeriodEndBlock: 200, RewardPeriodAllocation: &u, RewardPeriodDefaultMultiplier: &one, RewardPeriodMod: 1}}}
	case "clp.DecommissionPool":
		m := clptypes.NewMsgDecommissionPool(sg.Addr, "cusdc")
		return &m
	case "clp.ModifyLiquidityProtectionRates":
		return &clptypes.MsgModifyLiquidityProtectionRates{Signer: s, CurrentRowanLiquidityThreshold: sdk.NewUint(5)}
	case "clp.ModifyPmtpRates":
		return &clptypes.MsgModifyPmtpRates{Signer: s, BlockRate: "0.01", RunningRate: "0.02"}
	case "clp.SetSymmetryThreshold":
		return &clptypes.MsgSetSymmetryThreshold{Signer: s, Threshold: sdk.NewDecWithPrec(1, 2), Ratio: sdk.NewDecWithPrec(5, 3)}
	case "clp.UpdateLiquidityProtectionParams":
		return &clptypes.MsgUpdateLiquidityProtectionParams{Signer: s, MaxRowanLiquidityThreshold: sdk.NewUint(1000000), MaxRowanLiquidityThresholdAsset: "cusdc", EpochLength: 10, IsActive: false}
	case "clp.UpdatePmtpParams":
		return &clptypes.MsgUpdatePmtpParams{Signer: s, PmtpPeriodGovernanceRate: "0.1", PmtpPeriodEpochLength: 10, PmtpPeriodStartBlock: 1000, PmtpPeriodEndBlock: 1099}
	case "clp.UpdateRewardsParams":
		return &clptypes.MsgUpdateRewardsParamsRequest{Signer: s, LiquidityRemovalLockPeriod: 3, LiquidityRemovalCancelPeriod: 4}
	case "clp.UpdateStakingRewardParams":
		return &clptypes.MsgUpdateStakingRewardParams{Signer: s, Minter: minttypes.Minter{Inflation: sdk.NewDecWithPrec(2, 1), AnnualProvisions: sdk.OneDec()},
			Params: minttypes.Params{MintDenom: "rowan", InflationRateChange: sdk.NewDecWithPrec(13, 2), InflationMax: sdk.NewDecWithPrec(3, 1), InflationMin: sdk.NewDecWithPrec(7, 2), GoalBonded: sdk.NewDecWithPrec(67, 2), BlocksPerYear: 6311520}}
	case "clp.UpdateSwapFeeParams":
		return &clptypes.MsgUpdateSwapFeeParamsRequest{Signer: s, DefaultSwapFeeRate: sdk.NewDecWithPrec(4, 3)}
	case "ethbridge.RescueCeth":
		m := ethbridgetypes.NewMsgRescueCeth(sg.Addr, w.nobody.Addr, sdk.NewInt(1))
		return &m
	case "ethbridge.SetBlacklist":
		return &ethbridgetypes.MsgSetBlacklist{From: s, Addresses: []string{ethAddrs[1]}}
	case "ethbridge.SetPause":
		return &ethbridgetypes.MsgPause{Signer: s, IsPaused: true}
	case "ethbridge.UpdateCethReceiverAccount":
		m := ethbridgetypes.NewMsgUpdateCethReceiverAccount(sg.Addr, w.nobody.Addr)
		return &m
	case "ethbridge.UpdateWhiteListValidator":
		m := ethbridgetypes.NewMsgUpdateWhiteListValidator(sg.Addr, sdk.ValAddress(w.nobody.Addr), "add")
		return &m
	case "margin.AdminClose":
		return &margintypes.MsgAdminClose{Signer: s, MtpAddress: w.trader.Addr.String(), Id: 1, TakeMarginFund: false}
	case "margin.AdminCloseAll":
		return &margintypes.MsgAdminCloseAll{Signer: s, TakeMarginFund: false}
	case "margin.Dewhitelist":
		return &margintypes.MsgDewhitelist{Signer: s, WhitelistedAddress: w.trader.Addr.String()}
	case "margin.ForceClose":
		return &margintypes.MsgForceClose{Signer: s, MtpAddress: w.trader.Addr.String(), Id: 1}
	case "margin.UpdateParams":
		p := margintypes.DefaultGenesis().Params
		p.LeverageMax = sdk.NewDec(3)
		return &margintypes.MsgUpdateParams{Signer: s, Params: p}
	case "margin.UpdatePools":
		return &margintypes.MsgUpdatePools{Signer: s, Pools: []string{"ceth"}, ClosedPools: []string{}}
	case "margin.UpdateRowanCollateral":
		return &margintypes.MsgUpdateRowanCollateral{Signer: s, RowanCollateralEnabled: false}
	case "margin.Whitelist":
		return &margintypes.MsgWhitelist{Signer: s, WhitelistedAddress: w.nobody.Addr.String()}
	case "tokenregistry.Deregister":
		return &tokenregistrytypes.MsgDeregister{From: s, Denom: "cusdc"}
	case "tokenregistry.Register":
		return &tokenregistrytypes.MsgRegister{From: s, Entry: regEntry("cdash", 7)}
	case "tokenregistry.SetRegistry":
		return &tokenregistrytypes.MsgSetRegistry{From: s, Registry: &tokenregistrytypes.Registry{Entries: []*tokenregistrytypes.RegistryEntry{regEntry("rowan", 7)}}}
	}
	return nil
}

// further well-formed payloads of the privileged messages whose handlers branch on the payload (another operation, an
// entry that exists / does not exist, an empty list): the answer to "may this signer send it" must not depend on them
func (w *c08World) variants(method string, sg chain.Account) []sdk.Msg {
	s := sg.Addr.String()
	listed := sdk.ValAddress(w.trader.Addr)
	switch method {
	case "admin.AddAccount":
		return []sdk.Msg{
			&admintypes.MsgAddAccount{Signer: s, Account: &admintypes.AdminAccount{AdminType: admintypes.AdminType_CLPDEX, AdminAddress: w.holder["CLPDEX"].Addr.String()}},
			&admintypes.MsgAddAccount{Signer: s, Account: &admintypes.AdminAccount{AdminType: admintypes.AdminType_ADMIN, AdminAddress: s}}}
	case "admin.RemoveAccount":
		return []sdk.Msg{
			&admintypes.MsgRemoveAccount{Signer: s, Account: &admintypes.AdminAccount{AdminType: admintypes.AdminType_MARGIN, AdminAddress: w.nobody.Addr.String()}},
			&admintypes.MsgRemoveAccount{Signer: s, Account: &admintypes.AdminAccount{AdminType: admintypes.AdminType_ADMIN, AdminAddress: w.holder["ADMIN"].Addr.String()}}}
	case "clp.DecommissionPool":
		// (a pool that does not exist is refused for that reason before the signer is looked at: not a payload for this matrix)
		m1 := clptypes.NewMsgDecommissionPool(sg.Addr, "ceth")
		return []sdk.Msg{&m1}
	case "ethbridge.UpdateWhiteListValidator":
		m1 := ethbridgetypes.NewMsgUpdateWhiteListValidator(sg.Addr, listed, "remove")
		m2 := ethbridgetypes.NewMsgUpdateWhiteListValidator(sg.Addr, sdk.ValAddress(w.nobody.Addr), "remove")
		m3 := ethbridgetypes.NewMsgUpdateWhiteListValidator(sg.Addr, listed, "add")
		m4 := ethbridgetypes.NewMsgUpdateWhiteListValidator(sg.Addr, listed, "update")
		return []sdk.Msg{&m1, &m2, &m3, &m4}
	case "ethbridge.SetPause":
		return []sdk.Msg{&ethbridgetypes.MsgPause{Signer: s, IsPaused: false}}
	case "ethbridge.SetBlacklist":
		return []sdk.Msg{&ethbridgetypes.MsgSetBlacklist{From: s, Addresses: []string{}}, &ethbridgetypes.MsgSetBlacklist{From: s, Addresses: []string{ethAddrs[1], ethAddrs[2], ethAddrs[1]}}}
	case "ethbridge.UpdateCethReceiverAccount":
		m := ethbridgetypes.NewMsgUpdateCethReceiverAccount(sg.Addr, sg.Addr)
		return []sdk.Msg{&m}
	case "ethbridge.RescueCeth":
		m := ethbridgetypes.NewMsgRescueCeth(sg.Addr, sg.Addr, sdk.NewInt(1))
		return []sdk.Msg{&m}
	case "margin.AdminClose":
		return []sdk.Msg{&margintypes.MsgAdminClose{Signer: s, MtpAddress: w.trader.Addr.String(), Id: 1, TakeMarginFund: true},
			&margintypes.MsgAdminClose{Signer: s, MtpAddress: w.nobody.Addr.String(), Id: 77, TakeMarginFund: false}}
	case "margin.AdminCloseAll":
		return []sdk.Msg{&margintypes.MsgAdminCloseAll{Signer: s, TakeMarginFund: true}}
	case "margin.ForceClose":
		return []sdk.Msg{&margintypes.MsgForceClose{Signer: s, MtpAddress: w.nobody.Addr.String(), Id: 77}}
	case "margin.Whitelist":
		return []sdk.Msg{&margintypes.MsgWhitelist{Signer: s, WhitelistedAddress: s}}
	case "margin.Dewhitelist":
		return []sdk.Msg{&margintypes.MsgDewhitelist{Signer: s, WhitelistedAddress: w.nobody.Addr.String()}}
	case "margin.UpdatePools":
		return []sdk.Msg{&margintypes.MsgUpdatePools{Signer: s, Pools: []string{}, ClosedPools: []string{"ceth"}}}
	case "margin.UpdateRowanCollateral":
		return []sdk.Msg{&margintypes.MsgUpdateRowanCollateral{Signer: s, RowanCollateralEnabled: true}}
	case "tokenregistry.Deregister":
		return []sdk.Msg{&tokenregistrytypes.MsgDeregister{From: s, Denom: "cnothing"}}
	case "tokenregistry.Register":
		return []sdk.Msg{&tokenregistrytypes.MsgRegister{From: s, Entry: regEntry("ceth", 1)}}
	case "tokenregistry.SetRegistry":
		return []sdk.Msg{&tokenregistrytypes.MsgSetRegistry{From: s, Registry: &tokenregistrytypes.Registry{}}}
	case "clp.ModifyPmtpRates":
		return []sdk.Msg{&clptypes.MsgModifyPmtpRates{Signer: s, EndPolicy: true}}
	case "clp.UpdateSwapFeeParams":
		return []sdk.Msg{&clptypes.MsgUpdateSwapFeeParamsRequest{Signer: s, DefaultSwapFeeRate: sdk.NewDecWithPrec(4, 3), TokenParams: []*clptypes.SwapFeeTokenParams{{Asset: "ceth", SwapFeeRate: sdk.NewDecWithPrec(1, 2)}}}}
	}
	return nil
}

// prepare the state both twins start from (pool to decommission, margin position to close)
func (w *c08World) prepare() {
	w.BeginBlock()
	mustOK(w.UpdateRewardsParams(0, 0, 0, "", false), "rewards params")
	small := chain.E(18)
	mustOK(w.CreatePool(w.Users[0], "cusdc", small, small), "create small pool")
	mustOK(w.RemoveLiquidity(w.Users[0], "cusdc", 5000, 0), "shrink pool below the decommission threshold")
	big1 := new(big.Int).Mul(big.NewInt(1000000), chain.E(18))
	mustOK(w.CreatePool(w.Users[0], "ceth", big1, big1), "create ceth pool")
	mustOK(w.Tx(w.Admin, &margintypes.MsgUpdatePools{Signer: w.Admin.Addr.String(), Pools: []string{"ceth"}}), "margin pools")
	res := w.Tx(w.trader, &margintypes.MsgOpen{Signer: w.trader.Addr.String(), CollateralAsset: "rowan", CollateralAmount: sdk.NewUintFromBigInt(new(big.Int).Mul(big.NewInt(100), chain.E(18))),
		BorrowAsset: "ceth", Position: margintypes.Position_LONG, Leverage: sdk.NewDec(2)})
	_ = res
	w.NextBlock()
}

// stateHash commits the current block and returns the app hash.
// specRoles reads (module, method) -> role from the Coq specification table.
func specRoles(path string) map[string]string {
	out := map[string]string{}
	bz, err := os.ReadFile(path)
	if err != nil {
		panic(err)
	}
	txt := string(bz)
	i := strings.Index(txt, "Definition spec_table")
	if i < 0 {
		panic("spec_table not found in " + path)
	}
	txt = txt[i:]
	if j := strings.Index(txt, "]."); j >= 0 {
		txt = txt[:j]
	}
	re := regexp.MustCompile(`\("([a-z]+)", "([A-Za-z]+)", "([A-Z_]+)", (true|false)\)`)
	for _, m := range re.FindAllStringSubmatch(txt, -1) {
		out[m[1]+"."+m[2]] = m[3]
	}
	if len(out) < 40 {
		panic("spec_table parse: too few rows")
	}
	return out
}

func (w *c08World) commitHash() []byte {
	w.EndBlock()
	return w.Commit()
}

// C08 — exhaustive role matrix with twin chains (state unchanged = same app hash as a no-op transaction).
func C08(c Ctx) *report.Report {
	rep := report.New("C08", c.Seed, c.Tier)
	tbl := extract.AuthTable("/repo")
	// the monitor judges against the fixed specification table (Model/Admin.v spec_table), never against what the
	// extractor reads from the (possibly changed) code
	spec := specRoles(filepath.Join(filepath.Dir(c.OutDir), "Model", "Admin.v"))
	var cases []string
	id := 0
	for idx, ent := range tbl {
		method := ent.Module + "." + ent.Method
		if sr, ok := spec[method]; ok {
			ent.Role = sr
		}
		if ent.Role == "NONE" || ent.Role == "MISSING" {
			continue
		}
		stub := newC08Accounts()
		nVar := len(stub.variants(method, stub.nobody))
		for variant := 0; variant <= nVar; variant++ {
			for _, kind := range signerKinds {
				// the other payloads: no role, every role but the right one, the holder, the general administrator
				if variant > 0 && kind != "none" && kind != "all-but-the-right-one" && kind != ent.Role && kind != "ADMIN" {
					continue
				}
				// two identical worlds: A delivers the privileged message, B a no-op self-send by the same signer
				wa, wb := newC08World(), newC08World()
				wa.prepare()
				wb.prepare()
				var sa, sb chain.Account
				switch kind {
				case "none":
					sa, sb = wa.nobody, wb.nobody
				case "all-but-the-right-one":
					sa, sb = wa.allBut[ent.Role], wb.allBut[ent.Role]
				default:
					sa, sb = wa.holder[kind], wb.holder[kind]
				}
				msg := wa.build(method, sa)
				if msg == nil {
					rep.Notes = append(rep.Notes, "no payload for "+method)
					continue
				}
				if variant > 0 {
					vs := wa.variants(method, sa)
					if variant > len(vs) {
						continue
					}
					msg = vs[variant-1]
					rep.Count("matrix.variant-payload")
				}
				res := wa.Tx(sa, msg)
				// the reference transaction: a bank send that fails in the message (insufficient funds), so that only the
				// ante handler's writes (fee, sequence) reach the state.  (A successful self-send is not a no-op for the
				// IAVL commitment: rewriting an equal value bumps the node version and changes the hash.)
				noop := banktypes.NewMsgSend(sb.Addr, wb.nobody.Addr, sdk.NewCoins(sdk.NewCoin("cusdc", sdk.NewIntFromBigInt(chain.E(40)))))
				resB := wb.Tx(sb, noop)
				if resB.Code == 0 {
					panic("reference transaction unexpectedly succeeded")
				}
				ha, hb := wa.commitHash(), wb.commitHash()
				unchanged := bytes.Equal(ha, hb)
				holdsRole := kind == ent.Role
				refused := res.Code != 0 && refusedForPermission(res.Log)
				id++
				desc := map[string]interface{}{"message": method, "required_role": ent.Role, "signer_kind": kind, "code": res.Code, "log": trunc(res.Log, 140), "state_unchanged": unchanged}
				rep.CaseIndex[fmt.Sprint(id)] = desc
				rep.Count(fmt.Sprintf("matrix.%s.%s", map[bool]string{true: "holder", false: "non-holder"}[holdsRole], okStr(res.Code == 0)))
				// ---- monitor ----
				if !holdsRole {
					if res.Code == 0 {
						rep.Violate("C08/executed-without-role/"+method, fmt.Sprintf("%s executed for a signer of kind %q", method, kind), desc)
					} else if !unchanged {
						rep.Violate("C08/rejected-but-state-changed/"+method, fmt.Sprintf("%s was rejected for %q but the app hash differs from a no-op", method, kind), desc)
					}
				} else if res.Code != 0 && refused {
					rep.Violate("C08/role-holder-refused/"+method, fmt.Sprintf("%s refused for the holder of %s", method, ent.Role), desc)
				}
				// ---- case for the model ----
				e := &env.Enc{}
				e.I(int64(id)).I(int64(idx)).I(100)
				// role table as seen by this signer: (role code, 100) for each x/admin role the signer holds
				var held [][2]int64
				oracle, wl := int64(-1), []int64{}
				holdsR := func(r string) bool {
					switch kind {
					case "none":
						return false
					case "all-but-the-right-one":
						return r != ent.Role && r != "ORACLE_ADMIN"
					}
					return r == kind
				}
				for r, code := range roleCode {
					if holdsR(r) {
						held = append(held, [2]int64{code, 100})
					}
				}
				if holdsR("ORACLE_ADMIN") {
					oracle = 100
				}
				if holdsR("CLP_WHITELIST") {
					wl = append(wl, 100)
				}
				e.Len(len(held))
				for _, hr := range held {
					e.I(hr[0]).I(hr[1])
				}
				e.I(oracle).Len(len(wl))
				for _, x := range wl {
					e.I(x)
				}
				e.B(refused || (res.Code != 0 && !holdsRole && !refusedForPermission(res.Log) && false))
				cases = append(cases, e.Coq())
				rep.Sample(desc)
			}
		}
	}
	// ---- the signer must have signed: a transaction naming the role holder as the signer of the privileged message, signed
	// by somebody else, carried together with a staking message that the commission / voting-power decorator refuses (a
	// validator created with a commission of 1%) ----
	for idx, ent := range tbl {
		method := ent.Module + "." + ent.Method
		if sr, ok := spec[method]; ok {
			ent.Role = sr
		}
		if ent.Role == "NONE" || ent.Role == "MISSING" || idx%2 != 0 {
			continue
		}
		wa, wb := newC08World(), newC08World()
		wa.prepare()
		wb.prepare()
		holder := wa.holder[ent.Role]
		msg := wa.build(method, holder)
		if msg == nil {
			continue
		}
		bond := wa.App.StakingKeeper.BondDenom(wa.Ctx())
		pk := ed25519.GenPrivKeyFromSecret([]byte("c08-forged-cons")).PubKey()
		del, err := stakingtypes.NewMsgCreateValidator(sdk.ValAddress(wa.nobody.Addr), pk, sdk.NewCoin(bond, sdk.NewInt(1000000)), stakingtypes.NewDescription("n", "", "", "", ""),
			stakingtypes.NewCommissionRates(sdk.NewDecWithPrec(1, 2), sdk.NewDecWithPrec(20, 2), sdk.NewDecWithPrec(1, 2)), sdk.OneInt())
		if err != nil {
			panic(err)
		}
		res := wa.Deliver(chain.DefaultFee(), 5_000_000, []chain.Account{wa.nobody, wa.nobody}, del, msg)
		noop := banktypes.NewMsgSend(wb.nobody.Addr, wb.trader.Addr, sdk.NewCoins(sdk.NewCoin("cusdc", sdk.NewIntFromBigInt(chain.E(40)))))
		resB := wb.Tx(wb.nobody, noop)
		ha, hb := wa.commitHash(), wb.commitHash()
		id++
		desc := map[string]interface{}{"message": method, "required_role": ent.Role, "named_signer": "the role holder", "signed_by": "an account without roles (both signature slots)",
			"carried_with": "MsgCreateValidator with a commission of 1%", "code": res.Code, "log": trunc(res.Log, 140), "reference_code": resB.Code}
		rep.Count("forged-signer." + okStr(res.Code == 0))
		if res.Code == 0 {
			rep.Violate("C08/executed-without-signature/"+method, fmt.Sprintf("%s naming the %s holder as signer was executed in a transaction the holder did not sign", method, ent.Role), desc)
		} else if !bytes.Equal(ha, hb) && resB.Code != 0 {
			// (the reference fails in the message, the forged transaction in the ante handler: fee and sequence handling differ;
			// only an accepted transaction is a violation here)
			rep.Count("forged-signer.rejected-other-hash")
		}
	}
	// ---- role-table histories: add / remove take effect for the very next message ----
	rng := chain.NewRng(c.Seed + 8)
	for h := 0; h < c.N(10, 200); h++ {
		w := newC08World()
		w.prepare()
		adminHolder := w.holder["ADMIN"]
		subject := w.nobody
		has := map[string]bool{}
		for st := 0; st < 12; st++ {
			roles := []string{"CLPDEX", "PMTPREWARDS", "MARGIN", "ETHBRIDGE", "TOKENREGISTRY"}
			r := roles[rng.Intn(len(roles))]
			// a quarter of the edits spell the address in upper case (valid bech32, a different store key): such an entry
			// authorises nobody, and removing it does not remove the canonical one
			addr, upper := subject.Addr.String(), rng.Intn(4) == 0
			if upper {
				addr = strings.ToUpper(addr)
				rep.Count("history.edit.upper-case-address")
			}
			acc := &admintypes.AdminAccount{AdminType: roleType[r], AdminAddress: addr}
			if rng.Intn(2) == 0 {
				mustOK(w.Tx(adminHolder, &admintypes.MsgAddAccount{Signer: adminHolder.Addr.String(), Account: acc}), "add account")
				if !upper {
					has[r] = true
				}
			} else {
				mustOK(w.Tx(adminHolder, &admintypes.MsgRemoveAccount{Signer: adminHolder.Addr.String(), Account: acc}), "remove account")
				if !upper {
					has[r] = false
				}
			}
			// the very next message, one per role
			probe := map[string]string{"CLPDEX": "clp.SetSymmetryThreshold", "PMTPREWARDS": "clp.UpdateSwapFeeParams", "MARGIN": "margin.UpdateRowanCollateral",
				"ETHBRIDGE": "ethbridge.SetPause", "TOKENREGISTRY": "tokenregistry.Register"}
			pr := roles[rng.Intn(len(roles))]
			if rng.Intn(2) == 0 {
				pr = r // half of the probes ask for the role just edited
			}
			res := w.Tx(subject, w.build(probe[pr], subject))
			ok := res.Code == 0
			rep.Count(fmt.Sprintf("history.probe.%s", okStr(ok)))
			if ok != has[pr] {
				rep.Violate("C08/role-change-not-immediate", fmt.Sprintf("after role edits %v the probe %s returned ok=%v", has, probe[pr], ok),
					map[string]interface{}{"history": h, "step": st, "roles_held": fmt.Sprint(has), "probe": probe[pr], "log": trunc(res.Log, 120)})
			}
			id++
			if rng.Intn(3) == 0 {
				w.NextBlock()
			}
		}
		rep.ImplTraces++
	}
	rep.Evaluations = id
	rep.DistinctNontrivial = len(cases)
	rep.Distribution["exhaustive_matrix"] = fmt.Sprintf("%d privileged messages x %d signer kinds", len(cases)/len(signerKinds), len(signerKinds))
	rep.Rule = "exhaustive matrix on the real app: each of the 30 privileged Msg service methods (list regenerated from the source) with a well-formed payload x 10 signer kinds (no role, each of the six x/admin roles, oracle admin, clp whitelist, every role except the required one), each on a pair of identical fresh chains: the privileged message on one, a bank send that fails for lack of funds (fee and sequence only) by the same signer on the other, app hashes compared after commit; plus random add/remove role histories probing the very next message"
	writeCases(c, rep, "cases_C08.v", "From Sif Require Import Check.C08.\n",
		fmt.Sprintf("Definition cases : list (list int) := %s.\nDefinition M := Eval vm_compute in (c08_mismatches cases).\n", coqList(cases)))
	return rep
}
