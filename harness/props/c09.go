package props

import (
	"bytes"
	"encoding/json"
	"fmt"
	"math/big"
	"os"
	"os/exec"
	"path/filepath"
	"time"

	admintypes "github.com/Sifchain/sifnode/x/admin/types"
	clptypes "github.com/Sifchain/sifnode/x/clp/types"
	tokenregistrytypes "github.com/Sifchain/sifnode/x/tokenregistry/types"
	govtypes "github.com/cosmos/cosmos-sdk/x/gov/types"

	ethbridgetypes "github.com/Sifchain/sifnode/x/ethbridge/types"
	sdk "github.com/cosmos/cosmos-sdk/types"

	"sifverif/env"

	"sifverif/chain"
	"sifverif/report"
)

// reexec runs the recorded ABCI calls of a chain n times on fresh application instances and compares app hashes
// and the consensus-relevant DeliverTx results (Code, Data, GasWanted, GasUsed).
func reexec(rep *report.Report, c *chain.Chain, n int, kind string, replay interface{}) (calls int) {
	if c.InBlock {
		c.EndBlock()
		c.Commit()
	}
	ops := c.Ops
	restartNoted := false
	saved := time.Local
	defer func() { time.Local = saved }()
	for run := 0; run < n; run++ {
		// every re-execution runs as a node in another local time zone would (the first recorded run used the machine's own):
		// what is committed must not depend on the process environment
		time.Local = time.FixedZone(fmt.Sprintf("zone%d", run), []int{3600, -5 * 3600, 9 * 3600, 0, 5*3600 + 1800}[run%5])
		// every other re-execution also restarts the application (a new instance on the same database) after every
		// second, third, ... commit
		restartEvery := 0
		if run%2 == 1 {
			restartEvery = 2 + run/2
		}
		got := chain.ReplayRestarting(c.GenesisBytes, c.T0, ops, restartEvery)
		for i, o := range ops {
			g := got[i]
			switch {
			case o.Panic != g.Panic:
				rep.Violate("C09/panic-differs/"+kind, fmt.Sprintf("call %d (kind %d, height %d): panicked=%v in the first run, %v in re-execution %d", i, o.Kind, o.Height, o.Panic, g.Panic, run+1), replay)
				return len(ops) * (run + 1)
			case o.Kind == 4 && !bytes.Equal(o.Hash, g.Hash):
				rep.Violate("C09/app-hash-differs/"+kind, fmt.Sprintf("app hash after block %d differs in re-execution %d: %X vs %X", o.Height, run+1, o.Hash, g.Hash), replay)
				return len(ops) * (run + 1)
			case o.Kind == 2 && restartEvery > 0 && o.Code == g.Code && o.Code != 0 && bytes.Equal(o.Data, g.Data) && o.GasW == 0 && g.GasW == 0 && o.GasU != g.GasU:
				// a transaction refused before the ante handler ran (undecodable, or a message failing ValidateBasic: GasWanted 0).
				// baseapp then reports as GasUsed what the block's own context has consumed so far, and the first BeginBlock of a
				// restarted node consumes more there (x/capability rebuilds its in-memory store): finding F-27
				if !restartNoted {
					restartNoted = true
					rep.Violate("C09/gas-of-tx-refused-before-ante/after-restart", fmt.Sprintf("DeliverTx %d in block %d (code %d, GasWanted 0): GasUsed %d on the node that ran all along, %d on the node restarted after every %d commits", i, o.Height, o.Code, o.GasU, g.GasU, restartEvery), replay)
				}
			case o.Kind == 2 && (o.Code != g.Code || !bytes.Equal(o.Data, g.Data) || o.GasW != g.GasW || o.GasU != g.GasU):
				rep.Violate("C09/tx-result-differs/"+kind, fmt.Sprintf("DeliverTx %d in block %d: code %d/%d gas %d/%d", i, o.Height, o.Code, g.Code, o.GasU, g.GasU), replay)
				return len(ops) * (run + 1)
			}
		}
	}
	return len(ops) * n
}

// scriptRewardsDustPools: several pools, one of them so shallow that every provider's part of a block's depth
// rewards rounds to zero while the other pools pay; rewards are distributed to wallets.
func scriptRewardsDustPools(rng *chain.Rng) *env.Env {
	toks := []string{"cdash", "ceth", "clink", "cusdc"}[:3+rng.Intn(2)]
	e := env.New(env.Opts{NUsers: 4, Tokens: toks})
	e.BeginBlock()
	mustOK(e.UpdateRewardsParams(0, 0, 0, "", false), "rewards params")
	dust := rng.Intn(len(toks))
	for i, t := range toks {
		n := new(big.Int).Mul(big.NewInt(int64(100000+rng.Intn(400000))), chain.E(18))
		if i == dust {
			n = chain.E(18)
		}
		mustOK(e.CreatePool(e.Users[0], t, n, n), "create pool")
		for _, u := range e.Users[1:3] {
			mustOK(e.AddLiquidity(u, t, n, n), "add liquidity")
		}
	}
	st := uint64(e.Height) + 1
	au := sdk.NewUint(uint64(1000000 * (1 + rng.Intn(4))))
	dm := sdk.OneDec()
	p := &clptypes.RewardPeriod{RewardPeriodId: "rp", RewardPeriodStartBlock: st, RewardPeriodEndBlock: st + 3,
		RewardPeriodAllocation: &au, RewardPeriodDefaultMultiplier: &dm, RewardPeriodDistribute: true, RewardPeriodMod: 1}
	mustOK(e.AddRewardPeriods([]*clptypes.RewardPeriod{p}), "reward period")
	if rng.Intn(2) == 0 {
		lp := &clptypes.ProviderDistributionPeriod{DistributionPeriodBlockRate: sdk.NewDecWithPrec(1, 18), DistributionPeriodStartBlock: st,
			DistributionPeriodEndBlock: st + 3, DistributionPeriodMod: 1}
		mustOK(e.AddLppdPeriods([]*clptypes.ProviderDistributionPeriod{lp}), "lppd")
	}
	for b := 0; b < 6; b++ {
		e.NextBlock()
		if rng.Intn(2) == 0 {
			e.Swap(e.Users[3], "rowan", toks[rng.Intn(len(toks))], big.NewInt(int64(1+rng.Intn(1000000))), big.NewInt(0))
		}
	}
	return e
}

// scriptAdminParams: corpus history — governance proposals whose transaction fee lies between the default submit-proposal
// fee (5000 rowan, used while no admin parameters are stored) and a fee the administrator stores later. A fresh
// application instance that replays these blocks must take the same decisions as the first one, whatever other chains the
// process has executed before (nothing read from one chain's store may survive in package-level state).
func scriptAdminParams(k int) *env.Env {
	e := env.New(env.Opts{NUsers: 3, Tokens: []string{"ceth"}})
	e.BeginBlock()
	fee := func(rowan int64) sdk.Coins {
		return sdk.NewCoins(sdk.NewCoin("rowan", sdk.NewIntFromBigInt(new(big.Int).Mul(big.NewInt(rowan), chain.E(18)))))
	}
	propose := func(u chain.Account, rowan int64) {
		m, err := govtypes.NewMsgSubmitProposal(govtypes.NewTextProposal("t", "d"), sdk.NewCoins(sdk.NewCoin("rowan", sdk.NewInt(1))), u.Addr)
		if err != nil {
			panic(err)
		}
		e.Deliver(fee(rowan), 5_000_000, []chain.Account{u}, m)
	}
	setFee := func(rowan int64) {
		m := &admintypes.MsgSetParams{Signer: e.Admin.Addr.String(), Params: &admintypes.Params{SubmitProposalFee: sdk.NewUintFromBigInt(new(big.Int).Mul(big.NewInt(rowan), chain.E(18)))}}
		mustOK(e.Tx(e.Admin, m), "admin params")
	}
	fees := [][3]int64{{10, 1, 10}, {6000, 20000, 6000}, {3, 7, 5}}[k%3]
	propose(e.Users[0], fees[0]) // against the default
	propose(e.Users[1], 4999)
	propose(e.Users[1], 5000)
	e.NextBlock()
	setFee(fees[1])
	e.NextBlock()
	propose(e.Users[0], fees[2]) // against the stored fee
	propose(e.Users[2], fees[1])
	e.NextBlock()
	setFee(2*fees[1] + 1) // the last stored fee differs from the default and from the earlier one
	propose(e.Users[2], 4999)
	e.NextBlock()
	return e
}

// reexecProcesses: the recorded calls executed by real child processes on one database directory — the first process runs
// the chain up to a commit in the middle, a second one opens the database and runs the rest. What the blocks compute must
// not depend on what the process did before (package-level state, first-call initialisation): a node restarted there
// must agree with the node that ran all along (the recording, and the in-process replays, come from processes that had
// executed many blocks of other chains before).
func reexecProcesses(rep *report.Report, c *chain.Chain, kind string, replay interface{}) int {
	if c.InBlock {
		c.EndBlock()
		c.Commit()
	}
	ops := c.Ops
	var commits []int
	for i, o := range ops {
		if o.Kind == 4 {
			commits = append(commits, i)
		}
	}
	if len(commits) < 2 {
		return 0
	}
	exe, err := os.Executable()
	if err != nil {
		panic(err)
	}
	dir, err := os.MkdirTemp("", "sifverif-replay-")
	if err != nil {
		panic(err)
	}
	defer os.RemoveAll(dir)
	cut := commits[len(commits)/2] + 1
	var got []chain.Op
	for part, rng := range [][2]int{{0, cut}, {cut, len(ops)}} {
		job := chain.ReplayJob{Dir: filepath.Join(dir, "db"), Genesis: c.GenesisBytes, T0: c.T0, Ops: ops[rng[0]:rng[1]], Init: part == 0}
		bz, _ := json.Marshal(job)
		jf := filepath.Join(dir, fmt.Sprintf("job%d.json", part))
		if err := os.WriteFile(jf, bz, 0o644); err != nil {
			panic(err)
		}
		if out, err := exec.Command(exe, "replay-child", jf).CombinedOutput(); err != nil {
			rep.Notes = append(rep.Notes, "replay child failed: "+trunc(string(out), 300))
			return 0
		}
		res, err := os.ReadFile(jf + ".out")
		if err != nil {
			panic(err)
		}
		var part1 []chain.Op
		if err := json.Unmarshal(res, &part1); err != nil {
			panic(err)
		}
		got = append(got, part1...)
	}
	for i, o := range ops {
		g := got[i]
		where := "first"
		if i >= cut {
			where = "second"
		}
		switch {
		case o.Panic != g.Panic:
			rep.Violate("C09/process-restart/panic-differs/"+kind, fmt.Sprintf("call %d (kind %d, height %d): panicked=%v in the recording, %v in the %s child process", i, o.Kind, o.Height, o.Panic, g.Panic, where), replay)
			return len(ops)
		case o.Kind == 4 && !bytes.Equal(o.Hash, g.Hash):
			rep.Violate("C09/process-restart/app-hash-differs/"+kind, fmt.Sprintf("app hash after block %d: %X in the recording, %X in the %s child process (process started after block %d)", o.Height, o.Hash, g.Hash, where, ops[cut-1].Height), replay)
			return len(ops)
		case o.Kind == 2 && o.Code == g.Code && o.Code != 0 && o.GasW == 0 && g.GasW == 0 && o.GasU != g.GasU:
			// finding F-27 (GasUsed of a transaction refused before the ante handler), reported by the in-process restarts
		case o.Kind == 2 && (o.Code != g.Code || !bytes.Equal(o.Data, g.Data) || o.GasW != g.GasW || o.GasU != g.GasU):
			rep.Violate("C09/process-restart/tx-result-differs/"+kind, fmt.Sprintf("DeliverTx %d in block %d: code %d/%d gas %d/%d (%s child process)", i, o.Height, o.Code, g.Code, o.GasU, g.GasU, where), replay)
			return len(ops)
		}
	}
	rep.Count("reexecuted-in-child-processes." + kind)
	return len(ops)
}

// scriptRegistryChange: corpus history — a pool is processed by the block hooks for some blocks, then the token registry
// entry of its token is re-registered with other decimals (and later with the old ones again), with blocks and swaps in
// between: a node that restarts after the change must compute what the node that ran all along computes.
func scriptRegistryChange() *env.Env {
	e := env.New(env.Opts{NUsers: 3, Tokens: []string{"ceth", "cusdc"}})
	e.BeginBlock()
	mustOK(e.UpdateRewardsParams(0, 0, 0, "", false), "rewards params")
	n := new(big.Int).Mul(big.NewInt(1000), chain.E(18))
	mustOK(e.CreatePool(e.Users[0], "ceth", n, new(big.Int).Mul(big.NewInt(2000), chain.E(18))), "create pool")
	mustOK(e.CreatePool(e.Users[0], "cusdc", n, new(big.Int).Mul(big.NewInt(500), chain.E(18))), "create pool")
	e.NextBlock()
	e.NextBlock()
	reg := func(denom string, decimals int64) {
		en := regEntry(denom, 7)
		en.Decimals = decimals
		mustOK(e.Tx(e.Admin, &tokenregistrytypes.MsgRegister{From: e.Admin.Addr.String(), Entry: en}), "register")
	}
	for i, d := range []int64{6, 18, 8} {
		reg("ceth", d)
		e.Swap(e.Users[1], "rowan", "ceth", new(big.Int).Mul(big.NewInt(int64(1+i)), chain.E(18)), big.NewInt(0))
		e.NextBlock()
		e.Swap(e.Users[2], "ceth", "rowan", chain.E(18), big.NewInt(0))
		e.NextBlock()
		e.NextBlock()
	}
	mustOK(e.Tx(e.Admin, &tokenregistrytypes.MsgDeregister{From: e.Admin.Addr.String(), Denom: "cusdc"}), "deregister")
	e.NextBlock()
	e.NextBlock()
	return e
}

// C09 — state-machine determinism: same blocks, same state and results.
func C09(c Ctx) *report.Report {
	rep := report.New("C09", c.Seed, c.Tier)
	rng := chain.NewRng(c.Seed + 9)
	next := 0
	runs := c.N(4, 16)
	calls, hists := 0, 0
	// corpus first: administrator-set parameters and the ante decisions that read them (the first recorded run of each
	// comes after the previous script's re-executions in this same process)
	for k := 0; k < 3; k++ {
		e := scriptAdminParams(k)
		calls += reexec(rep, e.Chain, runs, "admin-params", map[string]interface{}{"corpus": "governance proposals with fees around the default submit-proposal fee and around the fee the administrator stores in between", "variant": k})
		hists++
		rep.Count("reexecuted.admin-params")
	}
	{
		e := scriptRegistryChange()
		calls += reexec(rep, e.Chain, 2*runs, "registry-change", map[string]interface{}{"corpus": "two pools; ceth re-registered with 6, 18 and 8 decimals, cusdc deregistered, swaps and blocks in between"})
		calls += reexecProcesses(rep, e.Chain, "registry-change", map[string]interface{}{"corpus": "two pools; ceth re-registered with 6, 18 and 8 decimals, cusdc deregistered, swaps and blocks in between"})
		hists++
		rep.Count("reexecuted.registry-change")
	}
	// margin: opens, closes, liquidations and interest in the begin blocker
	{
		mnext := 0
		for _, h := range RunMarginHistories(c, rep, rng, c.N(6, 120), 30, &mnext) {
			calls += reexec(rep, h.Env.Chain, runs, "margin", h.replay(len(h.Steps)))
			hists++
			rep.Count("reexecuted.margin")
		}
	}
	// AMM: several providers per pool and providers in several pools, LPPD and depth-reward payouts, epoch payouts
	o := clpOpts(c, 0, 0)
	o.Histories = c.N(16, 300)
	o.Steps = 40
	for _, h := range RunClpHistories(c, rep, rng, o, &next) {
		calls += reexec(rep, h.Env.Chain, runs, "clp", replayOf(h, len(h.Steps)))
		hists++
		rep.Count("reexecuted.clp")
	}
	// depth rewards paid to wallets over pools of very different depth: a dust pool whose providers' parts all round to
	// zero next to pools that pay (zero and non-zero entries in the reward map), and LPPD on the same pools
	for i := 0; i < c.N(4, 40); i++ {
		e := scriptRewardsDustPools(rng)
		calls += reexec(rep, e.Chain, 2*runs, "clp-rewards", map[string]interface{}{"corpus": "3-4 pools, one of them 1e18 deep with 3 equal providers, reward period paid to wallets with an allocation so small that the dust pool's parts round to zero"})
		hists++
		rep.Count("reexecuted.rewards-dust-pools")
	}
	// bridge: conflicting claims with tied powers, whitelist edits
	for _, h := range RunBridgeHistories(c, rep, rng, BOpts{Histories: c.N(12, 200), Steps: 24, ClaimW: 12, LockW: 2, AdminW: 3, Pause: true}, &next) {
		calls += reexec(rep, h.Env.Chain, runs, "bridge", h.replay(len(h.Steps)))
		hists++
		rep.Count("reexecuted.bridge")
	}
	// corpus: two claim contents with tied power on one prophecy, one of them from a validator that was removed from
	// the whitelist in between (the order-dependent choice of finding F-3, fixed)
	for i := 0; i < 3; i++ {
		e := env.NewBridge([]int64{40, 20, 20}, []bool{true, true, true}, 3)
		claim := func(vi int, amount int64) {
			cl := ethbridgetypes.NewEthBridgeClaim(1, ethbridgetypes.NewEthereumAddress("0x30753E4A8aad7F8597332E813735Def5dD395028"), 1, "eth",
				ethbridgetypes.NewEthereumAddress("0x0000000000000000000000000000000000000000"), ethbridgetypes.NewEthereumAddress(ethAddrs[0]), e.Users[0].Addr, e.ValAddr(vi),
				sdk.NewInt(amount), ethbridgetypes.ClaimType_CLAIM_TYPE_LOCK)
			m := ethbridgetypes.NewMsgCreateEthBridgeClaim(cl)
			e.Tx(e.Vals[vi], &m)
		}
		claim(0, 100)
		rm := ethbridgetypes.NewMsgUpdateWhiteListValidator(e.OracleAdm.Addr, e.ValAddr(0), "remove")
		mustOK(e.Tx(e.OracleAdm, &rm), "remove validator 0")
		e.NextBlock()
		claim(1, 200)
		claim(2, 200)
		e.NextBlock()
		calls += reexec(rep, e.Chain, 4*runs, "bridge", map[string]interface{}{"corpus": "powers 40/20/20; validator 0 claims amount 100; validator 0 removed from the whitelist; validators 1 and 2 claim amount 200"})
		hists++
		rep.Count("reexecuted.bridge-tie-corpus")
	}
	// dispensation runs
	for _, h := range RunDispHistories(c, rep, rng, c.N(8, 150), 30, &next) {
		calls += reexec(rep, h.W.Chain, runs, "dispensation", h.replay(len(h.Steps)))
		hists++
		rep.Count("reexecuted.dispensation")
	}
	// policy worlds: ratio-shifting and liquidity-protection updates in BeginBlock
	for i := 0; i < c.N(12, 200); i++ {
		e := newC10WorldN(rng.Intn(5))
		name, msg, fields := buildPolicyMsg(e, rng, rng.Intn(8))
		e.Tx(e.Admin, msg)
		runBlocks(e, rng, 6, nil, rep, nil)
		if e.HookPanic != nil {
			continue
		}
		calls += reexec(rep, e.Chain, runs, "policy", map[string]interface{}{"message": name, "fields": fields})
		if i%3 == 0 {
			calls += reexecProcesses(rep, e.Chain, "policy", map[string]interface{}{"message": name, "fields": fields})
		}
		hists++
		rep.Count("reexecuted.policy")
	}
	rep.Evaluations = calls
	rep.DistinctNontrivial = hists
	rep.ImplTraces = hists * (runs + 1)
	rep.Rule = fmt.Sprintf("one case = one generated multi-block history (AMM with several providers per pool, LPPD / depth-reward / epoch payouts; bridge with tied powers and conflicting claims; dispensation runs; policy updates in BeginBlock) whose recorded ABCI calls (same genesis bytes, block headers and signed transaction bytes) are re-executed %d times on fresh application instances; app hash after every Commit and Code / Data / GasWanted / GasUsed of every DeliverTx compared; non-trivial = history", runs)
	return rep
}
