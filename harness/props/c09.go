package props

import (
	"bytes"
	"fmt"

	ethbridgetypes "github.com/Sifchain/sifnode/x/ethbridge/types"
	sdk "github.com/cosmos/cosmos-sdk/types"

	"sifverif/env"

	"sifverif/chain"
	"sifverif/report"
)

// reexec runs the recorded ABCI calls of a chain n times on fresh application instances and compares app hashes
// and the consensus-relevant DeliverTx results (Code, Data, GasWanted, GasUsed).
func reexec(rep *report.Report, c *chain.Chain, n int, kind string, replay interface{}) (calls int) {
	if c.InBlock {
		c.EndBlock()
		c.Commit()
	}
	ops := c.Ops
	for run := 0; run < n; run++ {
		got := chain.Replay(c.GenesisBytes, c.T0, ops)
		for i, o := range ops {
			g := got[i]
			switch {
			case o.Panic != g.Panic:
				rep.Violate("C09/panic-differs/"+kind, fmt.Sprintf("call %d (kind %d, height %d): panicked=%v in the first run, %v in re-execution %d", i, o.Kind, o.Height, o.Panic, g.Panic, run+1), replay)
				return len(ops) * (run + 1)
			case o.Kind == 4 && !bytes.Equal(o.Hash, g.Hash):
				rep.Violate("C09/app-hash-differs/"+kind, fmt.Sprintf("app hash after block %d differs in re-execution %d: %X vs %X", o.Height, run+1, o.Hash, g.Hash), replay)
				return len(ops) * (run + 1)
			case o.Kind == 2 && (o.Code != g.Code || !bytes.Equal(o.Data, g.Data) || o.GasW != g.GasW || o.GasU != g.GasU):
				rep.Violate("C09/tx-result-differs/"+kind, fmt.Sprintf("DeliverTx %d in block %d: code %d/%d gas %d/%d", i, o.Height, o.Code, g.Code, o.GasU, g.GasU), replay)
				return len(ops) * (run + 1)
			}
		}
	}
	return len(ops) * n
}

// C09 — state-machine determinism: same blocks, same state and results.
func C09(c Ctx) *report.Report {
	rep := report.New("C09", c.Seed, c.Tier)
	rng := chain.NewRng(c.Seed + 9)
	next := 0
	runs := c.N(4, 16)
	calls, hists := 0, 0
	// AMM: several providers per pool and providers in several pools, LPPD and depth-reward payouts, epoch payouts
	o := clpOpts(c, 0, 0)
	o.Histories = c.N(16, 300)
	o.Steps = 40
	for _, h := range RunClpHistories(c, rep, rng, o, &next) {
		calls += reexec(rep, h.Env.Chain, runs, "clp", replayOf(h, len(h.Steps)))
		hists++
		rep.Count("reexecuted.clp")
	}
	// bridge: conflicting claims with tied powers, whitelist edits
	for _, h := range RunBridgeHistories(c, rep, rng, BOpts{Histories: c.N(12, 200), Steps: 24, ClaimW: 12, LockW: 2, AdminW: 3, Pause: true}, &next) {
		calls += reexec(rep, h.Env.Chain, runs, "bridge", h.replay(len(h.Steps)))
		hists++
		rep.Count("reexecuted.bridge")
	}
	// corpus: two claim contents with tied power on one prophecy, one of them from a validator that was removed from
	// the whitelist in between (the order-dependent choice of finding F-3, fixed)
	for i := 0; i < 3; i++ {
		e := env.NewBridge([]int64{40, 20, 20}, []bool{true, true, true}, 3)
		claim := func(vi int, amount int64) {
			cl := ethbridgetypes.NewEthBridgeClaim(1, ethbridgetypes.NewEthereumAddress("0x30753E4A8aad7F8597332E813735Def5dD395028"), 1, "eth",
				ethbridgetypes.NewEthereumAddress("0x0000000000000000000000000000000000000000"), ethbridgetypes.NewEthereumAddress(ethAddrs[0]), e.Users[0].Addr, e.ValAddr(vi),
				sdk.NewInt(amount), ethbridgetypes.ClaimType_CLAIM_TYPE_LOCK)
			m := ethbridgetypes.NewMsgCreateEthBridgeClaim(cl)
			e.Tx(e.Vals[vi], &m)
		}
		claim(0, 100)
		rm := ethbridgetypes.NewMsgUpdateWhiteListValidator(e.OracleAdm.Addr, e.ValAddr(0), "remove")
		mustOK(e.Tx(e.OracleAdm, &rm), "remove validator 0")
		e.NextBlock()
		claim(1, 200)
		claim(2, 200)
		e.NextBlock()
		calls += reexec(rep, e.Chain, 4*runs, "bridge", map[string]interface{}{"corpus": "powers 40/20/20; validator 0 claims amount 100; validator 0 removed from the whitelist; validators 1 and 2 claim amount 200"})
		hists++
		rep.Count("reexecuted.bridge-tie-corpus")
	}
	// dispensation runs
	for _, h := range RunDispHistories(c, rep, rng, c.N(8, 150), 30, &next) {
		calls += reexec(rep, h.W.Chain, runs, "dispensation", h.replay(len(h.Steps)))
		hists++
		rep.Count("reexecuted.dispensation")
	}
	// policy worlds: ratio-shifting and liquidity-protection updates in BeginBlock
	for i := 0; i < c.N(12, 200); i++ {
		e := newC10WorldN(rng.Intn(5))
		name, msg, fields := buildPolicyMsg(e, rng, rng.Intn(8))
		e.Tx(e.Admin, msg)
		runBlocks(e, rng, 6, nil, rep, nil)
		if e.HookPanic != nil {
			continue
		}
		calls += reexec(rep, e.Chain, runs, "policy", map[string]interface{}{"message": name, "fields": fields})
		hists++
		rep.Count("reexecuted.policy")
	}
	rep.Evaluations = calls
	rep.DistinctNontrivial = hists
	rep.ImplTraces = hists * (runs + 1)
	rep.Rule = fmt.Sprintf("one case = one generated multi-block history (AMM with several providers per pool, LPPD / depth-reward / epoch payouts; bridge with tied powers and conflicting claims; dispensation runs; policy updates in BeginBlock) whose recorded ABCI calls (same genesis bytes, block headers and signed transaction bytes) are re-executed %d times on fresh application instances; app hash after every Commit and Code / Data / GasWanted / GasUsed of every DeliverTx compared; non-trivial = history", runs)
	return rep
}
