package props

import (
	"fmt"
	"math"
	"math/big"
	"strings"
	"time"

	clptypes "github.com/Sifchain/sifnode/x/clp/types"
	margintypes "github.com/Sifchain/sifnode/x/margin/types"
	sdk "github.com/cosmos/cosmos-sdk/types"

	"sifverif/chain"
	"sifverif/env"
	"sifverif/report"
)

// ---- boundary dictionaries ----

var two = big.NewInt(2)

func pow2(n uint) *big.Int { return new(big.Int).Lsh(big.NewInt(1), n) }

func pickU64(rng *chain.Rng, h int64) uint64 {
	cands := []uint64{0, 1, uint64(h - 1), uint64(h), uint64(h + 1), uint64(h + 2), uint64(h + 3), uint64(h + 5), uint64(h + 8),
		1<<63 - 1, 1 << 63, ^uint64(0), ^uint64(0) - 1}
	return cands[rng.Intn(len(cands))]
}

func pickNear(rng *chain.Rng, h int64) uint64 { return uint64(h + int64(rng.Intn(7)) - 1) }

var decDict = []string{"-1", "-1.000000000000000001", "-0.999999999999999999", "-2", "-0.5", "-0.25", "-0.75", "0", "0.000000000000000001", "0.01", "0.1", "0.5", "1", "1.5", "2", "10", "1000",
	"1000000000000", "100000000000000000000000000000000000000", "-100000000000000000000000000000000000000"}

func pickDecStr(rng *chain.Rng) string { return decDict[rng.Intn(len(decDict))] }

func pickUint(rng *chain.Rng) sdk.Uint {
	cands := []*big.Int{big.NewInt(0), big.NewInt(1), big.NewInt(100), big.NewInt(200), chain.E(18), chain.E(24), pow2(64), pow2(128),
		new(big.Int).Sub(pow2(256), big.NewInt(1)), new(big.Int).Sub(pow2(255), big.NewInt(1))}
	return sdk.NewUintFromBigInt(cands[rng.Intn(len(cands))])
}

// ---- policy state as the Coq model sees it (Model/ClpPolicy.v) ----

type polState struct {
	Height                     int64
	Max, Cur                   *big.Int
	Epoch                      uint64
	Active                     bool
	Start, End, EpochLen       int64
	Gov, Block, Running, Inter *big.Int
	Epochs, Blocks             int64
	Rewards                    []*clptypes.RewardPeriod
	Lppd                       []*clptypes.ProviderDistributionPeriod
}

func decBig(d sdk.Dec) *big.Int {
	if d.IsNil() {
		return new(big.Int)
	}
	return new(big.Int).Set(d.BigInt())
}

func polSnapshot(e *env.Env, height int64) polState {
	ctx := e.Ctx()
	k := e.App.ClpKeeper
	lp := k.GetLiquidityProtectionParams(ctx)
	pp := k.GetPmtpParams(ctx)
	pr := k.GetPmtpRateParams(ctx)
	pe := k.GetPmtpEpoch(ctx)
	st := polState{Height: height, Max: bi(lp.MaxRowanLiquidityThreshold), Cur: bi(k.GetLiquidityProtectionRateParams(ctx).CurrentRowanLiquidityThreshold),
		Epoch: lp.EpochLength, Active: lp.IsActive, Start: pp.PmtpPeriodStartBlock, End: pp.PmtpPeriodEndBlock, EpochLen: pp.PmtpPeriodEpochLength,
		Gov: decBig(pp.PmtpPeriodGovernanceRate), Block: decBig(pr.PmtpPeriodBlockRate), Running: decBig(pr.PmtpCurrentRunningRate), Inter: decBig(pr.PmtpInterPolicyRate),
		Epochs: pe.EpochCounter, Blocks: pe.BlockCounter}
	st.Rewards = k.GetRewardsParams(ctx).RewardPeriods
	st.Lppd = k.GetProviderDistributionParams(ctx).DistributionPeriods
	return st
}

func bi(u sdk.Uint) *big.Int {
	if u.BigInt() == nil {
		return new(big.Int)
	}
	return new(big.Int).Set(u.BigInt())
}

func assetID(e *env.Env, sym string) int64 {
	if id, ok := e.DenomID[sym]; ok {
		return id
	}
	return 99
}

func encLppd(en *env.Enc, p *clptypes.ProviderDistributionPeriod) {
	en.Z(decBig(p.DistributionPeriodBlockRate)).U(p.DistributionPeriodStartBlock).U(p.DistributionPeriodEndBlock).U(p.DistributionPeriodMod)
}

func (st polState) enc(en *env.Enc, e *env.Env) {
	en.I(st.Height).Z(st.Max).U(st.Epoch).B(st.Active).Z(st.Cur)
	en.I(st.Start).I(st.End).I(st.EpochLen).Z(st.Gov).Z(st.Block).Z(st.Running).Z(st.Inter).I(st.Epochs).I(st.Blocks)
	en.Len(len(st.Rewards))
	for _, r := range st.Rewards {
		al := new(big.Int)
		if r.RewardPeriodAllocation != nil {
			al = bi(*r.RewardPeriodAllocation)
		}
		en.U(r.RewardPeriodStartBlock).U(r.RewardPeriodEndBlock).Z(al).Len(len(r.RewardPeriodPoolMultipliers))
		for _, m := range r.RewardPeriodPoolMultipliers {
			mv := new(big.Int)
			if m != nil && m.Multiplier != nil {
				mv = decBig(*m.Multiplier)
			}
			en.I(assetID(e, m.PoolMultiplierAsset)).Z(mv)
		}
		df := new(big.Int)
		if r.RewardPeriodDefaultMultiplier != nil {
			df = decBig(*r.RewardPeriodDefaultMultiplier)
		}
		en.Z(df).B(r.RewardPeriodDistribute).U(r.RewardPeriodMod)
	}
	en.Len(len(st.Lppd))
	for _, p := range st.Lppd {
		encLppd(en, p)
	}
}

func encField(en *env.Enc, s string) {
	if s == "" {
		en.I(0)
		return
	}
	d, err := sdk.NewDecFromStr(s)
	if err != nil {
		en.I(1)
		return
	}
	en.I(2).Z(decBig(d))
}

// encPolicyMsg renders a policy message for Check/Policy.v; false if the model does not cover the kind.
func encPolicyMsg(en *env.Enc, e *env.Env, msg sdk.Msg) bool {
	switch m := msg.(type) {
	case *clptypes.MsgAddRewardPeriodRequest:
		en.I(0).Len(len(m.RewardPeriods))
		for _, r := range m.RewardPeriods {
			en.B(r.RewardPeriodId == "").U(r.RewardPeriodStartBlock).U(r.RewardPeriodEndBlock)
			if r.RewardPeriodAllocation == nil {
				en.I(0)
			} else {
				en.I(1).Z(bi(*r.RewardPeriodAllocation))
			}
			en.Len(len(r.RewardPeriodPoolMultipliers))
			for _, pm := range r.RewardPeriodPoolMultipliers {
				en.I(assetID(e, pm.PoolMultiplierAsset))
				if pm.Multiplier == nil {
					en.I(0)
				} else {
					en.I(1).Z(decBig(*pm.Multiplier))
				}
			}
			if r.RewardPeriodDefaultMultiplier == nil {
				en.I(0)
			} else {
				en.I(1).Z(decBig(*r.RewardPeriodDefaultMultiplier))
			}
			en.B(r.RewardPeriodDistribute).U(r.RewardPeriodMod)
		}
	case *clptypes.MsgAddProviderDistributionPeriodRequest:
		en.I(1).Len(len(m.DistributionPeriods))
		for _, p := range m.DistributionPeriods {
			encLppd(en, p)
		}
	case *clptypes.MsgUpdatePmtpParams:
		en.I(2)
		encField(en, m.PmtpPeriodGovernanceRate)
		en.I(m.PmtpPeriodEpochLength).I(m.PmtpPeriodStartBlock).I(m.PmtpPeriodEndBlock)
		// the block rate of the policy as the handler's float arithmetic gives it (an input of the model, like the block rate
		// PolicyStart stores): for the rate the message carries, or the stored one when it carries none
		gov := e.App.ClpKeeper.GetPmtpParams(e.Ctx()).PmtpPeriodGovernanceRate
		if m.PmtpPeriodGovernanceRate != "" {
			if g, err := sdk.NewDecFromStr(m.PmtpPeriodGovernanceRate); err == nil {
				gov = g
			}
		}
		if br := pmtpBlockRateOracle(gov, m.PmtpPeriodEpochLength, m.PmtpPeriodStartBlock, m.PmtpPeriodEndBlock); br != nil {
			en.I(1).Z(br)
		} else {
			en.I(0)
		}
	case *clptypes.MsgModifyPmtpRates:
		en.I(3)
		encField(en, m.BlockRate)
		encField(en, m.RunningRate)
		en.B(m.EndPolicy)
		// the block rate of the stored (possibly scheduled) policy: see MsgUpdatePmtpParams above
		sp := e.App.ClpKeeper.GetPmtpParams(e.Ctx())
		if br := pmtpBlockRateOracle(sp.PmtpPeriodGovernanceRate, sp.PmtpPeriodEpochLength, sp.PmtpPeriodStartBlock, sp.PmtpPeriodEndBlock); br != nil {
			en.I(1).Z(br)
		} else {
			en.I(0)
		}
	case *clptypes.MsgUpdateLiquidityProtectionParams:
		en.I(4).Z(bi(m.MaxRowanLiquidityThreshold)).U(m.EpochLength).B(m.IsActive)
	case *clptypes.MsgModifyLiquidityProtectionRates:
		en.I(5).Z(bi(m.CurrentRowanLiquidityThreshold))
	case *clptypes.MsgUpdateSwapFeeParamsRequest:
		en.I(6).Z(decBig(m.DefaultSwapFeeRate)).Len(len(m.TokenParams))
		for _, tp := range m.TokenParams {
			en.Z(decBig(tp.SwapFeeRate))
		}
	default:
		return false
	}
	return true
}

// pmtpBlockRateOracle: (1 + governance rate)^(epochs / blocks) - 1 in float64, printed with 18 decimals and parsed as a Dec:
// the arithmetic of PolicyStart and of the UpdatePmtpParams handler (x/clp/keeper/pmtp.go), which the model takes as an input.
func pmtpBlockRateOracle(gov sdk.Dec, epochLen, start, end int64) *big.Int {
	if epochLen <= 0 || gov.IsNil() || gov.LTE(sdk.NewDec(-1)) {
		return nil
	}
	blocks := end - start + 1
	if blocks == 0 {
		return nil
	}
	epochs := blocks / epochLen
	base := sdk.NewDec(1).Add(gov).MustFloat64()
	v := math.Pow(base, float64(epochs)/float64(blocks)) - 1
	d, err := sdk.NewDecFromStr(fmt.Sprintf("%.18f", v))
	if err != nil {
		return nil
	}
	return d.BigInt()
}

// polCases collects the encoded correspondence cases of one check run.
type polCases struct {
	items []string
	next  int
}

func (pc *polCases) addMsg(e *env.Env, msg sdk.Msg, ok bool, pre, post polState) int {
	en := &env.Enc{}
	en.I(int64(pc.next)).I(1)
	if !encPolicyMsg(en, e, msg) {
		return -1
	}
	en.B(ok)
	pre.enc(en, e)
	post.enc(en, e)
	pc.items = append(pc.items, en.Coq())
	pc.next++
	return pc.next - 1
}

func (pc *polCases) addBegin(e *env.Env, panicked bool, pre, post polState) int {
	en := &env.Enc{}
	en.I(int64(pc.next)).I(2)
	if panicked {
		en.I(0)
	} else {
		en.I(1).Z(post.Block)
	}
	en.B(!panicked)
	pre.enc(en, e)
	post.enc(en, e)
	pc.items = append(pc.items, en.Coq())
	pc.next++
	return pc.next - 1
}

// c10Case is one accepted-or-rejected policy message followed by blocks.
type c10Case struct {
	ID       int
	Kind     string
	Fields   map[string]interface{}
	Accepted bool
	Log      string
	Blocks   int
	Panic    string
	PanicAt  string
	Margin   bool
	Second   string // what was set up before the message
}

// enableMargin sets margin parameters (random inside the envelope, epoch length 1..4) and enables both pools for margin.
func enableMargin(e *env.Env, rng *chain.Rng) {
	w := &marginWorld{Env: e, FundFC: chain.NewAccount("fundfc"), FundInc: chain.NewAccount("fundinc"), Toks: []string{"ceth", "cusdc"}}
	w.setParams(rng, map[string]interface{}{})
	mustOK(e.Tx(e.Admin, &margintypes.MsgUpdatePools{Signer: e.Admin.Addr.String(), Pools: w.Toks}), "margin pools")
}

func (cs c10Case) replay() map[string]interface{} {
	return map[string]interface{}{"before": cs.Second, "setup": "pools ceth and cusdc (1e24/1e24, user0), reward bucket 1e20 ceth, then the admin message below signed by the holder of all roles at height 3; then blocks with one swap and one add each",
		"pools_enabled_for_margin": cs.Margin, "message": cs.Kind, "fields": cs.Fields, "accepted": cs.Accepted, "blocks_run": cs.Blocks, "panic": cs.Panic, "panic_at": cs.PanicAt}
}

func panicClass(p string) string {
	switch {
	case strings.Contains(p, "division by zero"):
		return "division-by-zero"
	case strings.Contains(p, "nil pointer"):
		return "nil-pointer"
	case strings.Contains(p, "negative") || strings.Contains(p, "non-positive") || strings.Contains(p, "underflow"):
		return "underflow"
	case strings.Contains(p, "overflow") || strings.Contains(p, "out of bound") || strings.Contains(p, "bit length"):
		return "overflow"
	case strings.Contains(p, "decimal") || strings.Contains(p, "NaN") || strings.Contains(p, "Inf"):
		return "unparsable-number"
	}
	return "other"
}

var c10Tokens = []string{"cada", "cdash", "ceth", "clink", "cusdc", "cwbtc"}

// newC10World: ceth and cusdc pools always; with extra > 0 further pools of the same depth (equal weights round
// up at 18 digits, so per-pool shares can add up to more than the whole)
func newC10World() *env.Env { return newC10WorldN(0) }

func newC10WorldN(extra int) *env.Env {
	e := env.New(env.Opts{NUsers: 3, Tokens: c10Tokens})
	e.BeginBlock()
	n := chain.E(24)
	mustOK(e.CreatePool(e.Users[0], "ceth", n, n), "pool ceth")
	mustOK(e.CreatePool(e.Users[0], "cusdc", n, n), "pool cusdc")
	for i, t := range []string{"cada", "cdash", "clink", "cwbtc"} {
		if i < extra {
			mustOK(e.CreatePool(e.Users[0], t, n, n), "pool "+t)
		}
	}
	return e
}

// traffic delivers a little user traffic in the current block (results ignored: panics inside messages are
// confined to the transaction by baseapp and checked by the tx monitors of C01-C03)
func traffic(e *env.Env, rng *chain.Rng) {
	u := e.Users[1+rng.Intn(2)]
	tok := []string{"ceth", "cusdc"}[rng.Intn(2)]
	amt := new(big.Int).Mul(big.NewInt(int64(1+rng.Intn(1000))), chain.E(int64(12+rng.Intn(8))))
	if rng.Intn(2) == 0 {
		e.Swap(u, "rowan", tok, amt, big.NewInt(0))
	} else {
		e.Swap(u, tok, "rowan", amt, big.NewInt(0))
	}
	// one-sided adds too (a pool whose native side a provider distribution emptied takes them through the empty-pool branch)
	switch rng.Intn(4) {
	case 0:
		e.AddLiquidity(u, tok, big.NewInt(0), amt)
	case 1:
		e.AddLiquidity(u, tok, amt, big.NewInt(0))
	default:
		e.AddLiquidity(u, tok, amt, amt)
	}
}

func decPtr(s string) *sdk.Dec {
	d, err := sdk.NewDecFromStr(s)
	if err != nil {
		return nil
	}
	return &d
}

// buildPolicyMsg draws one admin policy message with boundary field values.
func buildPolicyMsg(e *env.Env, rng *chain.Rng, kind int) (string, sdk.Msg, map[string]interface{}) {
	h := e.Height
	adm := e.Admin.Addr.String()
	f := map[string]interface{}{}
	switch kind {
	case 100: // corpus, finding F-15: an allocation of 2^256-1
		a := sdk.NewUintFromBigInt(new(big.Int).Sub(pow2(256), big.NewInt(1)))
		one := sdk.OneDec()
		p := &clptypes.RewardPeriod{RewardPeriodId: "rp1", RewardPeriodStartBlock: uint64(h + 1), RewardPeriodEndBlock: uint64(h + 4), RewardPeriodAllocation: &a,
			RewardPeriodDefaultMultiplier: &one, RewardPeriodDistribute: false, RewardPeriodMod: 1}
		f["allocation"], f["start"], f["end"], f["mod"], f["default_multiplier"] = a.String(), h+1, h+4, 1, "1"
		return "MsgAddRewardPeriodRequest", &clptypes.MsgAddRewardPeriodRequest{Signer: adm, RewardPeriods: []*clptypes.RewardPeriod{p}}, f
	case 101: // corpus, finding F-16: a governance rate of 1e38
		m := &clptypes.MsgUpdatePmtpParams{Signer: adm, PmtpPeriodGovernanceRate: "100000000000000000000000000000000000000", PmtpPeriodEpochLength: 2, PmtpPeriodStartBlock: h + 1, PmtpPeriodEndBlock: h + 6}
		f["gov_rate"], f["epoch_length"], f["start"], f["end"] = m.PmtpPeriodGovernanceRate, m.PmtpPeriodEpochLength, m.PmtpPeriodStartBlock, m.PmtpPeriodEndBlock
		return "MsgUpdatePmtpParams", m, f
	case 102: // corpus, finding F-7: a provider-distribution period with block rate 1 (margin-enabled pools)
		p := &clptypes.ProviderDistributionPeriod{DistributionPeriodStartBlock: uint64(h + 1), DistributionPeriodEndBlock: uint64(h + 3), DistributionPeriodBlockRate: sdk.OneDec(), DistributionPeriodMod: 1}
		f["start"], f["end"], f["mod"], f["rate"] = h+1, h+3, 1, "1"
		return "MsgAddProviderDistributionPeriodRequest", &clptypes.MsgAddProviderDistributionPeriodRequest{Signer: adm, DistributionPeriods: []*clptypes.ProviderDistributionPeriod{p}}, f
	case 103: // corpus, finding F-25: block rate 1 again (no margin), followed by an external-only add into the emptied pool
		p := &clptypes.ProviderDistributionPeriod{DistributionPeriodStartBlock: uint64(h + 1), DistributionPeriodEndBlock: uint64(h + 6), DistributionPeriodBlockRate: sdk.OneDec(), DistributionPeriodMod: 1}
		f["start"], f["end"], f["mod"], f["rate"], f["then"] = h+1, h+6, 1, "1", "two blocks later user 1 adds 1 rowan base unit + 1e18 ceth to the ceth pool and removes 5000 basis points of it"
		return "MsgAddProviderDistributionPeriodRequest", &clptypes.MsgAddProviderDistributionPeriodRequest{Signer: adm, DistributionPeriods: []*clptypes.ProviderDistributionPeriod{p}}, f
	case 104: // corpus: a running rate (accepted: any rate above -1, outside a policy window) so large that pricing the custody of a
		// position overflows sdk.Uint in the margin begin blocker — that position is skipped, the block must go on
		m := &clptypes.MsgModifyPmtpRates{Signer: adm, RunningRate: "1000000000000000000000000000000000000000000000000000000000000"}
		f["running_rate"] = m.RunningRate
		return "MsgModifyPmtpRates", m, f
	case 105: // corpus, finding F-29: a second policy of rate -0.5 after a first one of -0.5
		m := &clptypes.MsgUpdatePmtpParams{Signer: adm, PmtpPeriodGovernanceRate: "-0.5", PmtpPeriodEpochLength: 1, PmtpPeriodStartBlock: h + 1, PmtpPeriodEndBlock: h + 1}
		f["gov_rate"], f["epoch_length"], f["start"], f["end"] = m.PmtpPeriodGovernanceRate, m.PmtpPeriodEpochLength, m.PmtpPeriodStartBlock, m.PmtpPeriodEndBlock
		return "MsgUpdatePmtpParams", m, f
	case 106: // corpus, finding F-30: the running rate set to -0.5 while a policy of rate -0.5 is scheduled
		m := &clptypes.MsgModifyPmtpRates{Signer: adm, RunningRate: "-0.5"}
		f["running_rate"] = m.RunningRate
		return "MsgModifyPmtpRates", m, f
	case 0: // reward period
		p := &clptypes.RewardPeriod{RewardPeriodId: "rp1"}
		if rng.Intn(2) == 0 {
			p.RewardPeriodStartBlock, p.RewardPeriodEndBlock = pickU64(rng, h), pickU64(rng, h)
		} else {
			p.RewardPeriodStartBlock = pickNear(rng, h)
			p.RewardPeriodEndBlock = p.RewardPeriodStartBlock + uint64(rng.Intn(6))
		}
		if rng.Intn(6) != 0 {
			a := pickUint(rng)
			p.RewardPeriodAllocation = &a
			f["allocation"] = a.String()
		} else {
			f["allocation"] = "missing"
		}
		if rng.Intn(8) != 0 {
			p.RewardPeriodDefaultMultiplier = decPtr([]string{"0", "1", "10", "0.5", "10.000000000000000001", "-0.1"}[rng.Intn(6)])
			f["default_multiplier"] = fmt.Sprint(p.RewardPeriodDefaultMultiplier)
		} else {
			f["default_multiplier"] = "missing"
		}
		if rng.Intn(2) == 0 {
			pm := &clptypes.PoolMultiplier{PoolMultiplierAsset: []string{"ceth", "cusdc", "nosuch"}[rng.Intn(3)]}
			if rng.Intn(6) != 0 {
				pm.Multiplier = decPtr([]string{"0", "1", "10", "2.5"}[rng.Intn(4)])
			}
			p.RewardPeriodPoolMultipliers = []*clptypes.PoolMultiplier{pm}
			f["pool_multiplier"] = fmt.Sprint(pm.PoolMultiplierAsset, " ", pm.Multiplier)
		}
		p.RewardPeriodDistribute = rng.Intn(2) == 0
		p.RewardPeriodMod = []uint64{0, 1, 1, 2, 3, ^uint64(0)}[rng.Intn(6)]
		f["start"], f["end"], f["mod"], f["distribute"] = p.RewardPeriodStartBlock, p.RewardPeriodEndBlock, p.RewardPeriodMod, p.RewardPeriodDistribute
		return "MsgAddRewardPeriodRequest", &clptypes.MsgAddRewardPeriodRequest{Signer: adm, RewardPeriods: []*clptypes.RewardPeriod{p}}, f
	case 1: // provider distribution period
		p := &clptypes.ProviderDistributionPeriod{}
		if rng.Intn(2) == 0 {
			p.DistributionPeriodStartBlock, p.DistributionPeriodEndBlock = pickU64(rng, h), pickU64(rng, h)
		} else {
			p.DistributionPeriodStartBlock = pickNear(rng, h)
			p.DistributionPeriodEndBlock = p.DistributionPeriodStartBlock + uint64(rng.Intn(6))
		}
		r := []string{"0", "1", "0.5", "0.000000000000000001", "0.999999999999999999", "1.000000000000000001", "-0.1", "0.01"}[rng.Intn(8)]
		p.DistributionPeriodBlockRate = *decPtr(r)
		p.DistributionPeriodMod = []uint64{0, 1, 1, 2, 3, ^uint64(0)}[rng.Intn(6)]
		f["start"], f["end"], f["mod"], f["rate"] = p.DistributionPeriodStartBlock, p.DistributionPeriodEndBlock, p.DistributionPeriodMod, r
		return "MsgAddProviderDistributionPeriodRequest", &clptypes.MsgAddProviderDistributionPeriodRequest{Signer: adm, DistributionPeriods: []*clptypes.ProviderDistributionPeriod{p}}, f
	case 2: // pmtp params
		m := &clptypes.MsgUpdatePmtpParams{Signer: adm}
		m.PmtpPeriodGovernanceRate = append(decDict, "", "abc")[rng.Intn(len(decDict)+2)]
		m.PmtpPeriodEpochLength = []int64{-1, 0, 1, 1, 2, 3, 1<<63 - 1}[rng.Intn(7)]
		m.PmtpPeriodStartBlock = []int64{-1, 0, h, h + 1, h + 1, h + 2, 1<<63 - 1}[rng.Intn(7)]
		if rng.Intn(4) == 0 {
			m.PmtpPeriodEndBlock = []int64{-1, 0, h, 1<<63 - 1}[rng.Intn(4)]
		} else {
			// a whole number of epochs
			el := m.PmtpPeriodEpochLength
			if el <= 0 || el > 1000 {
				el = 1
			}
			m.PmtpPeriodEndBlock = m.PmtpPeriodStartBlock + el*int64(1+rng.Intn(4)) - 1
		}
		f["gov_rate"], f["epoch_length"], f["start"], f["end"] = m.PmtpPeriodGovernanceRate, m.PmtpPeriodEpochLength, m.PmtpPeriodStartBlock, m.PmtpPeriodEndBlock
		return "MsgUpdatePmtpParams", m, f
	case 3: // pmtp rates
		m := &clptypes.MsgModifyPmtpRates{Signer: adm}
		m.BlockRate = append(decDict, "", "", "abc")[rng.Intn(len(decDict)+3)]
		m.RunningRate = append(decDict, "", "", "abc")[rng.Intn(len(decDict)+3)]
		m.EndPolicy = rng.Intn(4) == 0
		f["block_rate"], f["running_rate"], f["end_policy"] = m.BlockRate, m.RunningRate, m.EndPolicy
		return "MsgModifyPmtpRates", m, f
	case 4: // liquidity protection params
		m := &clptypes.MsgUpdateLiquidityProtectionParams{Signer: adm}
		m.MaxRowanLiquidityThreshold = pickUint(rng)
		m.MaxRowanLiquidityThresholdAsset = []string{"rowan", "cusdc", "ceth", "nosuch", ""}[rng.Intn(5)]
		m.EpochLength = []uint64{0, 1, 2, 10, ^uint64(0)}[rng.Intn(5)]
		m.IsActive = rng.Intn(4) != 0
		f["max"], f["asset"], f["epoch_length"], f["active"] = m.MaxRowanLiquidityThreshold.String(), m.MaxRowanLiquidityThresholdAsset, m.EpochLength, m.IsActive
		return "MsgUpdateLiquidityProtectionParams", m, f
	case 5: // liquidity protection rates (after activating protection with max 100 in half of the cases)
		m := &clptypes.MsgModifyLiquidityProtectionRates{Signer: adm, CurrentRowanLiquidityThreshold: pickUint(rng)}
		f["current"] = m.CurrentRowanLiquidityThreshold.String()
		return "MsgModifyLiquidityProtectionRates", m, f
	case 6: // swap fee params
		m := &clptypes.MsgUpdateSwapFeeParamsRequest{Signer: adm}
		r := []string{"0", "1", "0.003", "0.999999999999999999", "1.000000000000000001", "-0.001"}
		m.DefaultSwapFeeRate = *decPtr(r[rng.Intn(len(r))])
		if rng.Intn(3) != 0 {
			// one to three per-token overrides; the out-of-range value may sit at any position while the default is fine
			var tr []string
			for _, a := range []string{"ceth", "rowan", "cusdc", "nosuch"}[:1+rng.Intn(3)] {
				v := r[rng.Intn(len(r))]
				if rng.Intn(3) == 0 {
					v = []string{"1.5", "2", "1.000000000000000001"}[rng.Intn(3)]
				}
				m.TokenParams = append(m.TokenParams, &clptypes.SwapFeeTokenParams{Asset: a, SwapFeeRate: *decPtr(v)})
				tr = append(tr, a+" "+v)
			}
			f["token_rates"] = fmt.Sprint(tr)
		}
		f["default_rate"] = m.DefaultSwapFeeRate.String()
		return "MsgUpdateSwapFeeParamsRequest", m, f
	default: // rewards params
		m := &clptypes.MsgUpdateRewardsParamsRequest{Signer: adm}
		m.LiquidityRemovalLockPeriod = []uint64{0, 1, 1 << 63, ^uint64(0)}[rng.Intn(4)]
		m.LiquidityRemovalCancelPeriod = []uint64{0, 1, 1 << 63, ^uint64(0)}[rng.Intn(4)]
		m.RewardsLockPeriod = []uint64{0, 1, 1 << 63, ^uint64(0)}[rng.Intn(4)]
		m.RewardsEpochIdentifier = []string{"", "hour", "day", "week", "nosuch"}[rng.Intn(5)]
		m.RewardsDistribute = rng.Intn(2) == 0
		f["lock"], f["cancel"], f["rewards_lock"], f["epoch_id"], f["distribute"] = m.LiquidityRemovalLockPeriod, m.LiquidityRemovalCancelPeriod, m.RewardsLockPeriod, m.RewardsEpochIdentifier, m.RewardsDistribute
		return "MsgUpdateRewardsParamsRequest", m, f
	}
}

// outsideEnvelope names the magnitude convention of DESIGN.md section 5 that an accepted policy message exceeds
// (validation does not enforce these; hook panics caused by them are the recorded findings F-15 / F-16).
func outsideEnvelope(msg sdk.Msg) string {
	switch m := msg.(type) {
	case *clptypes.MsgAddRewardPeriodRequest:
		for _, r := range m.RewardPeriods {
			if r.RewardPeriodAllocation != nil && r.RewardPeriodAllocation.BigInt().BitLen() > 128 {
				return "reward-allocation-above-2^128"
			}
		}
	case *clptypes.MsgUpdatePmtpParams:
		if d, err := sdk.NewDecFromStr(m.PmtpPeriodGovernanceRate); err == nil && d.GT(sdk.NewDec(5)) {
			return "governance-rate-above-5"
		}
	}
	return ""
}

// runBlocks runs n blocks with traffic; returns the first hook panic.
// c10MoreTraffic, when set, is delivered in every block beside the random traffic (corpus cases that need a particular user
// message in the blocks after the administrator's)
var c10MoreTraffic func(e *env.Env)

func runBlocks(e *env.Env, rng *chain.Rng, n int, pc *polCases, rep *report.Report, desc map[string]interface{}) (done int, panicMsg, where string) {
	for b := 0; b < n; b++ {
		traffic(e, rng)
		if c10MoreTraffic != nil {
			c10MoreTraffic(e)
		}
		if e.EndBlock() {
			return b, fmt.Sprint(e.HookPanic), fmt.Sprintf("EndBlock of height %d", e.Height)
		}
		e.Commit()
		pre := polSnapshot(e, e.Height+1)
		panicked := e.BeginBlock()
		post := polSnapshot(e, e.Height)
		// a panic after a setting outside the operating envelope (reported by the monitor, a known finding) is outside the
		// policy model's domain: the model covers the clp policy code, the overflow may surface in any hook that touches the
		// inflated balances
		if pc != nil && !(panicked && desc != nil && desc["outside_envelope"] != nil) {
			id := pc.addBegin(e, panicked, pre, post)
			rep.CaseIndex[fmt.Sprint(id)] = map[string]interface{}{"after": desc, "begin_block_of_height": e.Height, "panicked": panicked}
		}
		if panicked {
			return b, fmt.Sprint(e.HookPanic), fmt.Sprintf("BeginBlock of height %d", e.Height)
		}
	}
	return n, "", ""
}

// C10 — block processing never panics for user histories or accepted policy settings.
func C10(c Ctx) *report.Report {
	rep := report.New("C10", c.Seed, c.Tier)
	rng := chain.NewRng(c.Seed + 10)
	id := 0
	seen := map[string]bool{}
	pc := &polCases{}
	// ---- (a) admin policy messages with boundary values, each followed by a policy period of blocks ----
	n := c.N(480, 8000)
	for i := 0; i < n; i++ {
		e := newC10WorldN([]int{0, 0, 1, 2, 4}[rng.Intn(5)])
		if rng.Intn(2) == 0 {
			e.BlockStep = 25 * time.Minute // hour epochs fire every third block
		}
		// a funded rewards bucket so that epoch payouts have something to do
		coins := sdk.NewCoins(sdk.NewCoin("ceth", sdk.NewIntFromBigInt(chain.E(20))))
		e.Tx(e.Users[2], clptypes.NewMsgAddLiquidityToRewardsBucketRequest(e.Users[2].Addr.String(), coins))
		kind := rng.Intn(8)
		if i < 7 {
			kind = 100 + i // corpus first: the recorded findings F-15, F-16, F-7 and F-25; a rate that makes every position's health overflow
		}
		cs := c10Case{ID: id}
		// a third of the worlds have both pools enabled for margin trading: the margin begin blocker then recomputes the
		// pools' interest rates and health every margin epoch
		if rng.Intn(3) == 0 || kind == 102 || kind == 104 {
			enableMargin(e, rng)
			cs.Margin = true
			rep.Count("admin.world.margin-enabled")
			// ... and open positions in both collateral directions: the margin begin blocker then computes health and interest of
			// every position each margin epoch, whatever the policy message below does to prices and rates (a position whose
			// processing fails or panics is skipped, the block goes on)
			if kind != 102 {
				for b := 0; b < 4; b++ { // a margin epoch passes: the begin blocker gives the pools their health
					e.NextBlock()
				}
				for k, tok := range []string{"ceth", "cusdc"} {
					coll, bor := "rowan", tok
					if k == 1 {
						coll, bor = tok, "rowan"
					}
					m := margintypes.MsgOpen{Signer: e.Users[1+k].Addr.String(), CollateralAsset: coll, CollateralAmount: env.U(new(big.Int).Mul(big.NewInt(int64(10+rng.Intn(1000))), chain.E(18))),
						BorrowAsset: bor, Position: margintypes.Position_LONG, Leverage: sdk.NewDecWithPrec(int64(110+rng.Intn(90)), 2)}
					if r := e.Tx(e.Users[1+k], &m); r.Code == 0 {
						rep.Count("admin.world.margin-position-open")
					} else {
						rep.Count("admin.world.margin-position-refused: " + trunc(r.Log, 90))
					}
				}
			}
		}
		// second message kinds need a first one
		if kind == 5 && rng.Intn(2) == 0 {
			m := &clptypes.MsgUpdateLiquidityProtectionParams{Signer: e.Admin.Addr.String(), MaxRowanLiquidityThreshold: sdk.NewUint(100), MaxRowanLiquidityThresholdAsset: "cusdc", EpochLength: 10, IsActive: true}
			mustOK(e.Tx(e.Admin, m), "activate protection")
		}
		if (kind == 3 || kind == 2) && rng.Intn(2) == 0 {
			// rates / a new policy while a policy is scheduled or running: the message is delivered in the block before the
			// policy's first block, in its first block, inside, in its last block or in the block after it
			start := e.Height + 1 + int64(rng.Intn(3))
			end := start + 2*int64(1+rng.Intn(3)) - 1
			// (the first policy's rate is positive or negative: rates add up over consecutive policies - findings F-29, F-30 - so a
			// second message that sets a negative rate is judged against what this one leaves behind or will start from)
			firstRate := []string{"0.1", "0.1", "-0.5", "-0.25", "-0.75", "-0.9"}[rng.Intn(6)]
			m := &clptypes.MsgUpdatePmtpParams{Signer: e.Admin.Addr.String(), PmtpPeriodGovernanceRate: firstRate, PmtpPeriodEpochLength: 2, PmtpPeriodStartBlock: start, PmtpPeriodEndBlock: end}
			mustOK(e.Tx(e.Admin, m), "start policy")
			rep.Count("admin.first-policy-rate." + firstRate)
			at := []int64{start - 1, start, start, start + 1, end, end + 1}[rng.Intn(6)]
			if nb := int(at - e.Height); nb > 0 {
				if d, p, w := runBlocks(e, rng, nb, nil, rep, nil); p != "" {
					rep.Violate("C10/hook-panic/setup", p, map[string]interface{}{"where": w, "blocks": d})
				}
			}
			cs.Second = fmt.Sprintf("a ratio-shifting policy of rate %s over blocks %d..%d was scheduled first; the message below is delivered at height %d", firstRate, start, end, e.Height)
			where := "inside"
			switch {
			case e.Height < start:
				where = "before-start"
			case e.Height == start:
				where = "first-block"
			case e.Height == end:
				where = "last-block"
			case e.Height > end:
				where = "after-end"
			}
			rep.Count("admin.pmtp-message-at." + where)
		}
		c10MoreTraffic = nil
		if kind == 105 {
			// corpus, finding F-29: ratio-shifting policies add up. A first policy of rate -0.5 has run (running rate -0.5, kept
			// as the rate between policies); the message below asks for a second one of -0.5, which would end at exactly -1.
			// Rewards are re-invested into the pools at the end of every hour epoch (every third block) and the bucket is refilled
			// by a user in every block, so the epoch hook prices an asymmetric add with the running rate of the moment.
			e.BlockStep = 25 * time.Minute
			mustOK(e.UpdateRewardsParams(0, 0, 0, "hour", false), "rewards re-invested every hour")
			m := &clptypes.MsgUpdatePmtpParams{Signer: e.Admin.Addr.String(), PmtpPeriodGovernanceRate: "-0.5", PmtpPeriodEpochLength: 1, PmtpPeriodStartBlock: e.Height + 1, PmtpPeriodEndBlock: e.Height + 1}
			mustOK(e.Tx(e.Admin, m), "first policy")
			if d, p, w := runBlocks(e, rng, 2, nil, rep, nil); p != "" {
				rep.Violate("C10/hook-panic/setup", p, map[string]interface{}{"where": w, "blocks": d})
			}
			cs.Second = fmt.Sprintf("rewards are re-invested at the end of every hour epoch (25-minute blocks); a first ratio-shifting policy of rate -0.5 over block %d alone has run: running rate %s; a user adds 1e20 ceth to the rewards bucket in every block",
				e.Height-1, e.App.ClpKeeper.GetPmtpRateParams(e.Ctx()).PmtpCurrentRunningRate)
			c10MoreTraffic = func(e *env.Env) {
				e.Tx(e.Users[2], clptypes.NewMsgAddLiquidityToRewardsBucketRequest(e.Users[2].Addr.String(), coins))
			}
		}
		if kind == 106 {
			// corpus, finding F-30: a policy of rate -0.5 is scheduled (it starts two blocks from now); the message below sets the
			// running rate - the rate that policy will start from - to -0.5. Rewards re-invested every hour, bucket refilled.
			e.BlockStep = 25 * time.Minute
			mustOK(e.UpdateRewardsParams(0, 0, 0, "hour", false), "rewards re-invested every hour")
			m := &clptypes.MsgUpdatePmtpParams{Signer: e.Admin.Addr.String(), PmtpPeriodGovernanceRate: "-0.5", PmtpPeriodEpochLength: 1, PmtpPeriodStartBlock: e.Height + 3, PmtpPeriodEndBlock: e.Height + 3}
			mustOK(e.Tx(e.Admin, m), "scheduled policy")
			if d, p, w := runBlocks(e, rng, 1, nil, rep, nil); p != "" {
				rep.Violate("C10/hook-panic/setup", p, map[string]interface{}{"where": w, "blocks": d})
			}
			cs.Second = fmt.Sprintf("rewards are re-invested at the end of every hour epoch (25-minute blocks); a ratio-shifting policy of rate -0.5 over block %d alone is scheduled (current height %d); a user adds 1e20 ceth to the rewards bucket in every block",
				m.PmtpPeriodStartBlock, e.Height)
			c10MoreTraffic = func(e *env.Env) {
				e.Tx(e.Users[2], clptypes.NewMsgAddLiquidityToRewardsBucketRequest(e.Users[2].Addr.String(), coins))
			}
		}
		name, msg, fields := buildPolicyMsg(e, rng, kind)
		cs.Kind, cs.Fields = name, fields
		pre := polSnapshot(e, e.Height)
		res := e.Tx(e.Admin, msg)
		cs.Accepted, cs.Log = res.Code == 0, trunc(res.Log, 100)
		if cid := pc.addMsg(e, msg, cs.Accepted, pre, polSnapshot(e, e.Height)); cid >= 0 {
			rep.CaseIndex[fmt.Sprint(cid)] = map[string]interface{}{"message": name, "fields": fields, "accepted": cs.Accepted, "log": cs.Log}
		}
		rep.Count(fmt.Sprintf("admin.%s.%s", name, map[bool]string{true: "accepted", false: "rejected"}[cs.Accepted]))
		if sf, ok := msg.(*clptypes.MsgUpdateSwapFeeParamsRequest); ok && cs.Accepted {
			// a fee rate above 1 makes the fee exceed the swapped amount (sdk.Uint underflow where the epoch hook re-invests a
			// rewards bucket); a negative one is no rate: such settings must be refused when submitted
			bad := sf.DefaultSwapFeeRate.IsNegative() || sf.DefaultSwapFeeRate.GT(sdk.OneDec())
			for _, tp := range sf.TokenParams {
				bad = bad || tp.SwapFeeRate.IsNegative() || tp.SwapFeeRate.GT(sdk.OneDec())
			}
			if bad {
				rep.Violate("C10/accepted-out-of-range/swap-fee-rate", "a swap-fee parameter message with a rate outside [0,1] was accepted", map[string]interface{}{"message": name, "fields": fields})
			}
		}
		if cs.Accepted && kind == 103 {
			// scripted traffic: let the distribution empty the native sides, then a provider adds the external token only
			okBlocks := true
			for b := 0; b < 2 && okBlocks; b++ {
				okBlocks = !e.EndBlock()
				if okBlocks {
					e.Commit()
					okBlocks = !e.BeginBlock()
				}
			}
			if okBlocks {
				// the native side is empty now: an add of 1 base unit of rowan takes the empty-pool branch and overwrites the pool's
				// units with 1 (finding F-14); removing half of that one unit in the same block leaves the pool with 0 units while
				// the first provider still holds its own
				mustOK(e.UpdateRewardsParams(0, 0, 0, "", false), "no liquidity-removal lock period")
				r1 := e.AddLiquidity(e.Users[1], "ceth", big.NewInt(1), chain.E(18))
				r2 := e.RemoveLiquidity(e.Users[1], "ceth", 5000, 0)
				cs.Fields["add_code"], cs.Fields["remove_code"], cs.Fields["remove_log"] = r1.Code, r2.Code, trunc(r2.Log, 160)
				if p, err := e.App.ClpKeeper.GetPool(e.Ctx(), "ceth"); err == nil {
					cs.Fields["pool_units_after"] = p.PoolUnits.String()
				}
			}
		}
		if cs.Accepted {
			bdesc := map[string]interface{}{"message": name, "fields": fields}
			if tag := outsideEnvelope(msg); tag != "" {
				bdesc["outside_envelope"] = tag
			}
			cs.Blocks, cs.Panic, cs.PanicAt = runBlocks(e, rng, 9, pc, rep, bdesc)
			if cs.Panic != "" {
				sig := fmt.Sprintf("C10/hook-panic/%s/%s/%s", name, panicClass(cs.Panic), strings.Fields(cs.PanicAt)[0])
				if tag := outsideEnvelope(msg); tag != "" {
					sig += "/outside-envelope:" + tag
				}
				rep.Violate(sig, trunc(cs.Panic, 160)+" in "+cs.PanicAt, cs.replay())
				rep.Count("admin.hook-panic")
			}
		} else if strings.Contains(res.Log, "panic") || strings.Contains(res.Log, "recovered") {
			rep.Count("admin.message-panic-confined")
		}
		key := fmt.Sprint(name, fields)
		if !seen[key] {
			seen[key] = true
		}
		if len(rep.Samples) < 2 {
			rep.Sample(cs.replay())
		}
		id++
		rep.ImplTraces++
	}
	// ---- (b) user histories with adversarial amounts, incl. the zero-unit provider script ----
	for _, h := range c10UserHistories(c, rep, rng) {
		id += h
	}
	for i := 0; i*400 < len(pc.items); i++ {
		end := (i + 1) * 400
		if end > len(pc.items) {
			end = len(pc.items)
		}
		writeCases(c, rep, fmt.Sprintf("cases_C10_%d.v", i), "From Sif Require Import Check.Policy.\n",
			fmt.Sprintf("Definition cases : list (list int) := %s.\nDefinition M := Eval vm_compute in (pol_mismatches cases).\n", coqList(pc.items[i*400:end])))
	}
	rep.Evaluations = id + pc.next
	rep.DistinctNontrivial = len(seen)
	rep.Rule = "(a) one case = one admin policy message (8 kinds: reward periods, provider-distribution periods, ratio-shifting params and rates, liquidity-protection params and rates, swap fees, rewards params) with every field drawn from a boundary dictionary (0, 1, h-1..h+8, 2^63-1, 2^63, 2^64-1; decimals -2..1e38 incl. -1 and 1e-18 steps around 0/1; missing optional pointers; unparsable strings), delivered to the real app (a third of the worlds with both pools enabled for margin trading, margin epoch 1..4 blocks); every accepted one is followed by 9 blocks with swaps and adds, recover() around BeginBlock/EndBlock; (b) user histories with amounts 0, 1, 2^64, 2^128, dust, rewards buckets and hour epochs, incl. the scripted zero-unit-provider history; non-trivial = distinct (message, fields)"
	return rep
}

// c10UserHistories: permissionless traffic only; returns the number of steps of each history.
func c10UserHistories(c Ctx, rep *report.Report, rng *chain.Rng) []int {
	var out []int
	adversarial := func() *big.Int {
		switch rng.Intn(8) {
		case 0:
			return big.NewInt(0)
		case 1:
			return big.NewInt(1)
		case 2:
			return big.NewInt(2)
		case 3:
			return pow2(64)
		case 4:
			return new(big.Int).Sub(pow2(64), big.NewInt(1))
		case 5:
			return pow2(128)
		default:
			return rng.LogUniform(30)
		}
	}
	nh := c.N(40, 800)
	for h := 0; h < nh; h++ {
		e := env.New(env.Opts{NUsers: 4, Tokens: []string{"ceth", "cusdc"}, Funds: new(big.Int).Mul(big.NewInt(4), pow2(128))})
		e.BlockStep = 25 * time.Minute
		e.BeginBlock()
		var script []string
		log := func(s string, r chain.TxResult) {
			script = append(script, fmt.Sprintf("h=%d %s -> code %d", e.Height, s, r.Code))
		}
		scripted := h%4 == 0
		// a policy configuration inside the envelope: short rewards lock period (default 14 days of blocks), re-invest or wallet mode
		lockP := []uint64{0, 1, 1, 3}[rng.Intn(4)]
		wallet := rng.Intn(2) == 0
		mustOK(e.UpdateRewardsParams(0, 0, lockP, "hour", wallet), "rewards params")
		script = append(script, fmt.Sprintf("admin: rewards lock period %d, epoch hour, distribute to wallets %v", lockP, wallet))
		if h%4 == 1 {
			// several pools of one depth and an ordinary reward period (inside the envelope)
			np := 3 + rng.Intn(4)
			depth := new(big.Int).Mul(big.NewInt(int64(1+rng.Intn(1000))), chain.E(18))
			env6 := env.New(env.Opts{NUsers: 4, Tokens: c10Tokens, Funds: new(big.Int).Mul(big.NewInt(4), pow2(128))})
			env6.BlockStep = e.BlockStep
			env6.BeginBlock()
			e = env6
			for i := 0; i < np; i++ {
				log(fmt.Sprintf("create %s %s/%s by user0", c10Tokens[i], depth, depth), e.CreatePool(e.Users[0], c10Tokens[i], depth, depth))
			}
			alloc := sdk.NewUintFromBigInt(new(big.Int).Mul(big.NewInt(int64(1+rng.Intn(100))), chain.E(int64(15+rng.Intn(6)))))
			one := sdk.OneDec()
			st := uint64(e.Height + 1)
			rp := &clptypes.RewardPeriod{RewardPeriodId: "rp", RewardPeriodStartBlock: st, RewardPeriodEndBlock: st + uint64(3+rng.Intn(12)), RewardPeriodAllocation: &alloc,
				RewardPeriodDefaultMultiplier: &one, RewardPeriodDistribute: rng.Intn(2) == 0, RewardPeriodMod: uint64(1 + rng.Intn(2))}
			mustOK(e.AddRewardPeriods([]*clptypes.RewardPeriod{rp}), "reward period")
			script = append(script, fmt.Sprintf("admin: reward period %d..%d allocation %s mod %d distribute %v", rp.RewardPeriodStartBlock, rp.RewardPeriodEndBlock, alloc, rp.RewardPeriodMod, rp.RewardPeriodDistribute))
		}
		if scripted {
			// zero-unit provider: pool with units < external depth, a 1-base-unit asymmetric add by another user,
			// bucket funded, the real provider keeps refreshing its record with dust adds
			log("create ceth 1e18 rowan / 1e21 ceth by user0 (units 1e18 < external depth)", e.CreatePool(e.Users[0], "ceth", chain.E(18), chain.E(21)))
			log("add 0 rowan / 1 ceth by user1", e.AddLiquidity(e.Users[1], "ceth", big.NewInt(0), big.NewInt(1)))
			coins := sdk.NewCoins(sdk.NewCoin("ceth", sdk.NewIntFromBigInt(chain.E(20))))
			log("bucket 1e20 ceth by user3", e.Tx(e.Users[3], clptypes.NewMsgAddLiquidityToRewardsBucketRequest(e.Users[3].Addr.String(), coins)))
		}
		steps := 0
		for st := 0; st < 30; st++ {
			u := e.Users[rng.Intn(len(e.Users))]
			tok := []string{"ceth", "cusdc"}[rng.Intn(2)]
			if scripted {
				// the large provider refreshes LastUpdatedBlock with dust every block; nobody else touches the pool
				log("add 0 rowan / 1 ceth by user0", e.AddLiquidity(e.Users[0], "ceth", big.NewInt(0), big.NewInt(1)))
			} else {
				a, b := adversarial(), adversarial()
				switch rng.Intn(7) {
				case 0:
					log(fmt.Sprintf("create %s %s/%s", tok, a, b), e.CreatePool(u, tok, a, b))
				case 1, 2:
					log(fmt.Sprintf("add %s %s/%s", tok, a, b), e.AddLiquidity(u, tok, a, b))
				case 3:
					log(fmt.Sprintf("swap rowan->%s %s", tok, a), e.Swap(u, "rowan", tok, a, big.NewInt(0)))
				case 4:
					log(fmt.Sprintf("swap %s->rowan %s", tok, a), e.Swap(u, tok, "rowan", a, big.NewInt(0)))
				case 5:
					log(fmt.Sprintf("remove %s wbasis %d", tok, 1+rng.Intn(10000)), e.RemoveLiquidity(u, tok, int64(1+rng.Intn(10000)), int64(rng.Intn(20001)-10000)))
				default:
					coins := sdk.NewCoins(sdk.NewCoin(tok, sdk.NewIntFromBigInt(new(big.Int).Add(adversarial(), big.NewInt(1)))))
					log("bucket "+coins.String(), e.Tx(u, clptypes.NewMsgAddLiquidityToRewardsBucketRequest(u.Addr.String(), coins)))
				}
			}
			steps++
			if scripted || rng.Intn(2) == 0 {
				var p, w string
				if e.EndBlock() {
					p, w = fmt.Sprint(e.HookPanic), fmt.Sprintf("EndBlock of height %d", e.Height)
				} else {
					e.Commit()
					if e.BeginBlock() {
						p, w = fmt.Sprint(e.HookPanic), fmt.Sprintf("BeginBlock of height %d", e.Height)
					}
				}
				if p != "" {
					rep.Violate("C10/hook-panic/user-history/"+panicClass(p), trunc(p, 160)+" in "+w,
						map[string]interface{}{"setup": "4 users, tokens ceth cusdc, default parameters (hour rewards epoch), 25-minute blocks", "history": script, "panic": p, "where": w})
					rep.Count("user.hook-panic")
					break
				}
			}
		}
		rep.Count("user.histories")
		if scripted && h == 0 {
			rep.Notes = append(rep.Notes, strings.Join(script, " ; "))
		}
		rep.ImplTraces++
		out = append(out, steps)
	}
	return out
}
