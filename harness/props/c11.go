package props

import (
	"fmt"
	"math/big"
	"sort"
	"strings"

	disptypes "github.com/Sifchain/sifnode/x/dispensation/types"
	sdk "github.com/cosmos/cosmos-sdk/types"
	banktypes "github.com/cosmos/cosmos-sdk/x/bank/types"

	"sifverif/chain"
	"sifverif/env"
	"sifverif/report"
)

// ---- observed dispensation state (raw strings; integer ids are assigned when the history is complete) ----

type dRecord struct {
	Name, Rcp, Runner string
	Type              int64
	Coins             sdk.Coins
	Start, Done       int64
}

func (r dRecord) key() string { return fmt.Sprintf("%s_%d_%s", r.Name, r.Type, r.Rcp) }

type dState struct {
	Bal       map[string]sdk.Coins // tracked accounts
	Pending   []dRecord            // store order
	Completed []dRecord
	Failed    []dRecord
	Dists     [][3]string // name, type, runner
	Claims    [][2]string // user, type
	Height    int64
}

type dWorld struct {
	*env.Env
	Users   []chain.Account
	Fresh   []sdk.AccAddress // recipients without an account
	Blocked []sdk.AccAddress // module accounts used as recipients
	Module  sdk.AccAddress
	Tracked []string
	Denoms  []string // ascending = id order
}

var dispDenoms = []string{"rowan", "xeth", "xusdc"}

func newDispWorld() *dWorld {
	w := &dWorld{Denoms: dispDenoms}
	mod := disptypes.GetDistributionModuleAddress()
	// accounts whose bech32 sorts after the module account's (the model gives the module account the smallest id)
	pick := func(prefix string, n int) []chain.Account {
		var out []chain.Account
		for i := 0; len(out) < n; i++ {
			a := chain.NewAccount(fmt.Sprintf("%s%d", prefix, i))
			if a.Addr.String() > mod.String() {
				out = append(out, a)
			}
		}
		return out
	}
	w.Users = pick("disp-user", 5)
	for _, a := range pick("disp-fresh", 3) {
		w.Fresh = append(w.Fresh, a.Addr)
	}
	w.Env = env.New(env.Opts{NUsers: 0, Tokens: []string{"xeth", "xusdc"}, Funds: chain.E(26), Transform: func(g *chain.Genesis) {
		for _, u := range w.Users {
			g.Balances[u.Addr.String()] = sdk.NewCoins(sdk.NewCoin("rowan", sdk.NewIntFromBigInt(chain.E(26))),
				sdk.NewCoin("xeth", sdk.NewIntFromBigInt(chain.E(24))), sdk.NewCoin("xusdc", sdk.NewIntFromBigInt(chain.E(24))))
		}
	}})
	w.Module = mod
	w.NextBlock()
	for _, m := range []string{"clp", "fee_collector", "bonded_tokens_pool", "margin", "ethbridge", "gov"} {
		a := w.ModuleAddr(m)
		if a.String() > mod.String() && len(w.Blocked) < 2 {
			w.Blocked = append(w.Blocked, a)
		}
	}
	for _, u := range w.Users {
		w.Tracked = append(w.Tracked, u.Addr.String())
	}
	for _, a := range w.Fresh {
		w.Tracked = append(w.Tracked, a.String())
	}
	for _, a := range w.Blocked {
		w.Tracked = append(w.Tracked, a.String())
	}
	sort.Strings(w.Tracked)
	return w
}

func (w *dWorld) records(status disptypes.DistributionStatus) []dRecord {
	ctx := w.Ctx()
	it := w.App.DispensationKeeper.GetDistributionRecordsIterator(ctx, status)
	defer it.Close()
	var out []dRecord
	for ; it.Valid(); it.Next() {
		var dr disptypes.DistributionRecord
		w.App.AppCodec().MustUnmarshal(it.Value(), &dr)
		out = append(out, dRecord{Name: dr.DistributionName, Rcp: dr.RecipientAddress, Runner: dr.AuthorizedRunner, Type: int64(dr.DistributionType),
			Coins: dr.Coins, Start: dr.DistributionStartHeight, Done: dr.DistributionCompletedHeight})
	}
	return out
}

func (w *dWorld) snapshot() dState {
	ctx := w.Ctx()
	s := dState{Bal: map[string]sdk.Coins{}, Height: w.Height}
	for _, a := range append([]string{w.Module.String()}, w.Tracked...) {
		addr, _ := sdk.AccAddressFromBech32(a)
		var cs sdk.Coins
		for _, d := range w.Denoms {
			if b := w.App.BankKeeper.GetBalance(ctx, addr, d); b.IsPositive() {
				cs = append(cs, b)
			}
		}
		s.Bal[a] = cs
	}
	s.Pending = w.records(disptypes.DistributionStatus_DISTRIBUTION_STATUS_PENDING)
	s.Completed = w.records(disptypes.DistributionStatus_DISTRIBUTION_STATUS_COMPLETED)
	s.Failed = w.records(disptypes.DistributionStatus_DISTRIBUTION_STATUS_FAILED)
	for _, d := range w.App.DispensationKeeper.GetDistributions(ctx).Distributions {
		s.Dists = append(s.Dists, [3]string{d.DistributionName, fmt.Sprint(int64(d.DistributionType)), d.Runner})
	}
	for _, c := range w.App.DispensationKeeper.GetClaims(ctx).UserClaims {
		// a claim belongs to the account its address string denotes, however the string is spelled
		ua := c.UserAddress
		if a, err := sdk.AccAddressFromBech32(ua); err == nil {
			ua = a.String()
		}
		s.Claims = append(s.Claims, [2]string{ua, fmt.Sprint(int64(c.UserClaimType))})
	}
	return s
}

// ---- steps ----

type dOut struct {
	Rcp   string
	Coins sdk.Coins
}

type dStep struct {
	ID      int
	Kind    int // 1 create 2 run 3 claim
	Signer  string
	Name    string
	Type    int64
	Runner  string
	Count   int64
	Outs    []dOut
	Fee     *big.Int
	OK      bool
	Log     string
	Pre     dState
	Post    dState
	HistID  int
	StepNo  int
	NewBlk  bool
	Comment string
}

func (s dStep) desc() map[string]interface{} {
	d := map[string]interface{}{"step": s.StepNo, "ok": s.OK, "signer": s.Signer, "height": s.Pre.Height, "new_block_before": s.NewBlk}
	switch s.Kind {
	case 1:
		var outs []string
		for _, o := range s.Outs {
			outs = append(outs, o.Rcp+":"+o.Coins.String())
		}
		d["msg"] = "MsgCreateDistribution"
		d["type"], d["runner"], d["outputs"], d["name"] = s.Type, s.Runner, outs, s.Name
	case 2:
		d["msg"] = "MsgRunDistribution"
		d["type"], d["name"], d["count"] = s.Type, s.Name, s.Count
	case 3:
		d["msg"] = "MsgCreateUserClaim"
		d["type"] = s.Type
	}
	if !s.OK {
		d["log"] = trunc(s.Log, 120)
	}
	return d
}

type dHistory struct {
	ID    int
	W     *dWorld
	Steps []dStep
	Names map[string]bool
}

func (h dHistory) replay(upto int) map[string]interface{} {
	var st []interface{}
	for _, s := range h.Steps {
		if s.StepNo > upto {
			break
		}
		st = append(st, s.desc())
	}
	return map[string]interface{}{"history": h.ID, "steps": st,
		"setup": "5 users funded with 1e26 rowan, 1e24 xeth, 1e24 xusdc; recipients: users, 3 addresses without account, 2 module accounts (blocked); every tx pays 0.1 rowan"}
}

var dispFee = new(big.Int).Set(chain.E(17))

func (w *dWorld) deliver(signer chain.Account, m sdk.Msg) chain.TxResult {
	return w.Deliver(sdk.NewCoins(sdk.NewCoin("rowan", sdk.NewIntFromBigInt(dispFee))), 20_000_000, []chain.Account{signer}, m)
}

func randCoins(rng *chain.Rng, malformed bool) sdk.Coins {
	var cs sdk.Coins
	for _, d := range dispDenoms {
		if rng.Intn(2) == 0 {
			continue
		}
		var a *big.Int
		if d == "rowan" {
			a = rng.LogUniform(21)
		} else if rng.Intn(12) == 0 {
			a = rng.LogUniform(27) // may exceed the distributor's funds
		} else {
			a = rng.LogUniform(22)
		}
		if a.Sign() == 0 {
			a = big.NewInt(1)
		}
		cs = append(cs, sdk.NewCoin(d, sdk.NewIntFromBigInt(a)))
	}
	if malformed {
		switch rng.Intn(3) {
		case 0:
			cs = sdk.Coins{} // empty coins: valid Coins, invalid record
		case 1:
			cs = append(cs, sdk.Coin{Denom: "xusdc", Amount: sdk.ZeroInt()}) // zero amount / duplicate denom
		default:
			if len(cs) > 0 {
				cs = append(cs, cs[0]) // duplicate denom
			}
		}
	}
	return cs
}

// RunDispHistories drives create / run / claim messages on the real app.
func RunDispHistories(c Ctx, rep *report.Report, rng *chain.Rng, n, steps int, nextID *int) []dHistory {
	var hs []dHistory
	for hI := 0; hI < n; hI++ {
		w := newDispWorld()
		h := dHistory{ID: hI, W: w, Names: map[string]bool{}}
		var created []dStep // successful creates (for run targets)
		rcpPool := func() string {
			switch r := rng.Intn(10); {
			case r < 5:
				return w.Users[rng.Intn(len(w.Users))].Addr.String()
			case r < 8:
				return w.Fresh[rng.Intn(len(w.Fresh))].String()
			default:
				if len(w.Blocked) == 0 {
					return w.Fresh[0].String()
				}
				return w.Blocked[rng.Intn(len(w.Blocked))].String()
			}
		}
		newBlk := false
		scriptName := ""
		for st := 0; st < steps; st++ {
			s := dStep{HistID: hI, StepNo: st, Fee: dispFee, NewBlk: newBlk}
			newBlk = false
			var signer chain.Account
			var msg sdk.Msg
			k := rng.Intn(10)
			if st < 2 {
				k = 0
			}
			// corpus (every fourth history, steps 2..6, all in one block): a distributor creates a distribution, its runner pays it,
			// the same distributor creates another one of the same type in the same block (same name) with another runner and the
			// same recipient, that runner pays it, twice
			scripted := hI%4 == 0 && st >= 2 && st <= 6
			if scripted {
				rcp := w.Users[4%len(w.Users)].Addr.String()
				runner := w.Users[1]
				if st >= 4 {
					runner = w.Users[2]
				}
				if st == 2 {
					scriptName = fmt.Sprintf("%d_%s", w.Height, w.Users[0].Addr.String())
				}
				if st == 2 || st == 4 {
					signer = w.Users[0]
					s.Kind, s.Type, s.Runner = 1, 1, runner.Addr.String()
					s.Name = fmt.Sprintf("%d_%s", w.Height, signer.Addr.String())
					cs := sdk.NewCoins(sdk.NewCoin("rowan", sdk.NewInt(int64(1000+st))))
					s.Outs = []dOut{{rcp, cs}}
					m := disptypes.NewMsgCreateDistribution(signer.Addr, disptypes.DistributionType_DISTRIBUTION_TYPE_AIRDROP, []banktypes.Output{{Address: rcp, Coins: cs}}, s.Runner)
					msg = &m
				} else {
					signer = runner
					s.Kind, s.Type, s.Runner, s.Name, s.Count = 2, 1, runner.Addr.String(), scriptName, 10
					m := disptypes.NewMsgRunDistribution(s.Runner, s.Name, disptypes.DistributionType_DISTRIBUTION_TYPE_AIRDROP, s.Count)
					msg = &m
				}
				rep.Count("corpus.same-name-second-runner")
				k = 99
			}
			switch {
			case k == 99:
			case k < 4: // create
				signer = w.Users[rng.Intn(3)] // few distributors: same-block same-distributor collisions
				s.Kind, s.Type = 1, int64(1+rng.Intn(3))
				if rng.Intn(25) == 0 {
					s.Type = 0
				}
				s.Runner = w.Users[rng.Intn(3)].Addr.String()
				s.Name = fmt.Sprintf("%d_%s", w.Height, signer.Addr.String())
				nOut := 1 + rng.Intn(6)
				var outs []banktypes.Output
				for i := 0; i < nOut; i++ {
					rcp := rcpPool()
					if rng.Intn(10) == 0 {
						rcp = strings.ToUpper(rcp) // bech32's other spelling of the same address
						rep.Count("create.output-address-in-upper-case")
					}
					if i > 0 && rng.Intn(4) == 0 {
						rcp = s.Outs[rng.Intn(len(s.Outs))].Rcp // duplicate recipient
						switch rng.Intn(4) {
						case 0: // ... once more, in the other spelling
							if rcp == strings.ToUpper(rcp) {
								rcp = strings.ToLower(rcp)
							} else {
								rcp = strings.ToUpper(rcp)
							}
							rep.Count("create.duplicate-recipient-in-other-spelling")
						}
					}
					cs := randCoins(rng, rng.Intn(30) == 0)
					s.Outs = append(s.Outs, dOut{rcp, cs})
					outs = append(outs, banktypes.Output{Address: rcp, Coins: cs})
				}
				if rng.Intn(40) == 0 {
					outs, s.Outs = nil, nil
				}
				m := disptypes.NewMsgCreateDistribution(signer.Addr, disptypes.DistributionType(s.Type), outs, s.Runner)
				msg = &m
			case k < 8: // run
				s.Kind = 2
				s.Count = int64(1 + rng.Intn(6))
				switch rng.Intn(12) {
				case 0:
					s.Count = 20
				case 1:
					s.Count = 21
				case 2:
					s.Count = 0
				}
				if len(created) > 0 && rng.Intn(10) != 0 {
					t := created[rng.Intn(len(created))]
					s.Name, s.Type, s.Runner = t.Name, t.Type, t.Runner
					switch rng.Intn(8) {
					case 0: // wrong runner
						s.Runner = w.Users[rng.Intn(len(w.Users))].Addr.String()
					case 1: // wrong type
						s.Type = int64(1 + rng.Intn(3))
					case 2: // another distribution's name
						s.Name = created[rng.Intn(len(created))].Name
					}
				} else {
					s.Name, s.Type, s.Runner = fmt.Sprintf("%d_%s", 1+rng.Intn(30), w.Users[rng.Intn(3)].Addr.String()), int64(1+rng.Intn(3)), w.Users[rng.Intn(3)].Addr.String()
				}
				for _, u := range w.Users {
					if u.Addr.String() == s.Runner {
						signer = u
					}
				}
				m := disptypes.NewMsgRunDistribution(s.Runner, s.Name, disptypes.DistributionType(s.Type), s.Count)
				msg = &m
			default: // claim
				s.Kind = 3
				signer = w.Users[rng.Intn(len(w.Users))]
				s.Type = int64(2 + rng.Intn(2))
				if rng.Intn(10) == 0 {
					s.Type = int64(rng.Intn(2)) // 0 or 1: not a claim type
				}
				m := disptypes.NewMsgCreateUserClaim(signer.Addr, disptypes.DistributionType(s.Type))
				if rng.Intn(8) == 0 { // the all-upper-case bech32 spelling of the same address
					m.UserClaimAddress = strings.ToUpper(m.UserClaimAddress)
					rep.Count("claim.address-spelled-in-upper-case")
				}
				msg = &m
			}
			s.Signer = signer.Addr.String()
			if s.Name != "" {
				h.Names[s.Name] = true
			}
			s.Pre = w.snapshot()
			res := w.deliver(signer, msg)
			s.OK, s.Log = res.Code == 0, res.Log
			s.Post = w.snapshot()
			for _, r := range append(append(append([]dRecord{}, s.Post.Pending...), s.Post.Completed...), s.Post.Failed...) {
				h.Names[r.Name] = true
			}
			s.ID = *nextID
			*nextID++
			if s.Kind == 1 && s.OK {
				created = append(created, s)
			}
			rep.Count(fmt.Sprintf("step.%s.%s", map[int]string{1: "create", 2: "run", 3: "claim"}[s.Kind], okStr(s.OK)))
			h.Steps = append(h.Steps, s)
			if rng.Intn(3) == 0 && !(hI%4 == 0 && st >= 2 && st <= 5) {
				if w.NextBlock() {
					rep.Violate("C11/hook-panic", fmt.Sprint(w.HookPanic), h.replay(st))
				}
				newBlk = true
			}
		}
		rep.ImplTraces++
		hs = append(hs, h)
	}
	return hs
}

// ---- encoding ----

type dIDs struct {
	acct, name, denom map[string]int64
}

func (h dHistory) ids() dIDs {
	ids := dIDs{acct: map[string]int64{}, name: map[string]int64{}, denom: map[string]int64{}}
	ids.acct[h.W.Module.String()] = 2
	for i, a := range h.W.Tracked { // sorted
		ids.acct[a] = int64(10 + i)
	}
	var names []string
	for n := range h.Names {
		names = append(names, n)
	}
	sort.Strings(names)
	for i, n := range names {
		ids.name[n] = int64(i + 1)
	}
	for i, d := range h.W.Denoms {
		ids.denom[d] = int64(i)
	}
	return ids
}

func (ids dIDs) acctOf(a string) int64 {
	if v, ok := ids.acct[a]; ok {
		return v
	}
	// the all-upper-case spelling of a tracked address: another record key (it sorts before the lower-case one), the same
	// account (Model/Dispensation.v: negative ids, acct_of)
	if a == strings.ToUpper(a) {
		if v, ok := ids.acct[strings.ToLower(a)]; ok {
			return v - 100000
		}
	}
	return 9999 // an account outside the tracked set
}

func (ids dIDs) coins(e *env.Enc, cs sdk.Coins) {
	e.Len(len(cs))
	for _, c := range cs {
		e.I(ids.denom[c.Denom]).Z(c.Amount.BigInt())
	}
}

func (ids dIDs) table(e *env.Enc, rs []dRecord) {
	e.Len(len(rs))
	for _, r := range rs {
		e.I(ids.name[r.Name]).I(r.Type).I(ids.acctOf(r.Rcp))
		ids.coins(e, r.Coins)
		e.I(ids.acctOf(r.Runner)).I(r.Start).I(r.Done)
	}
}

func (ids dIDs) state(e *env.Enc, w *dWorld, s dState) {
	accts := append([]string{w.Module.String()}, w.Tracked...)
	e.Len(len(accts))
	for _, a := range accts {
		e.I(ids.acctOf(a))
		ids.coins(e, s.Bal[a])
	}
	ids.table(e, s.Pending)
	ids.table(e, s.Completed)
	ids.table(e, s.Failed)
	e.Len(len(s.Dists))
	for _, d := range s.Dists {
		e.I(ids.name[d[0]]).Z(bigStr(d[1])).I(ids.acctOf(d[2]))
	}
	e.Len(len(s.Claims))
	for _, c := range s.Claims {
		e.I(ids.acctOf(c[0])).Z(bigStr(c[1]))
	}
	blocked := append([]string{w.Module.String()}, []string{}...)
	for _, b := range w.Blocked {
		blocked = append(blocked, b.String())
	}
	e.Len(len(blocked))
	for _, b := range blocked {
		e.I(ids.acctOf(b))
	}
	e.I(s.Height)
}

func (h dHistory) enc(s dStep, ids dIDs) string {
	e := &env.Enc{}
	e.I(int64(s.ID)).I(int64(s.Kind))
	switch s.Kind {
	case 1:
		e.I(ids.acctOf(s.Signer)).I(ids.name[s.Name]).I(s.Type).I(ids.acctOf(s.Runner)).Len(len(s.Outs))
		for _, o := range s.Outs {
			e.I(ids.acctOf(o.Rcp))
			ids.coins(e, o.Coins)
		}
	case 2:
		e.I(ids.acctOf(s.Runner)).I(ids.name[s.Name]).I(s.Type).I(s.Count)
	case 3:
		e.I(ids.acctOf(s.Signer)).I(s.Type)
	}
	e.Z(s.Fee).B(s.OK)
	ids.state(e, h.W, s.Pre)
	ids.state(e, h.W, s.Post)
	return e.Coq()
}

// ---- monitors: the property restated on what the implementation did ----

func coinsOf(cs sdk.Coins, d string) *big.Int { return new(big.Int).Set(cs.AmountOf(d).BigInt()) }

func sumRecords(rs []dRecord, d string) *big.Int {
	t := new(big.Int)
	for _, r := range rs {
		t.Add(t, coinsOf(r.Coins, d))
	}
	return t
}

func recMap(rs []dRecord) map[string]dRecord {
	m := map[string]dRecord{}
	for _, r := range rs {
		m[r.key()] = r
	}
	return m
}

func MonDispensation(rep *report.Report, h dHistory) {
	w := h.W
	mod := w.Module.String()
	blocked := map[string]bool{mod: true}
	for _, b := range w.Blocked {
		blocked[b.String()] = true
	}
	// ghost ledger per record key and denom
	owed, paid := map[string]*big.Int{}, map[string]*big.Int{}
	add := func(m map[string]*big.Int, k string, x *big.Int) {
		if m[k] == nil {
			m[k] = new(big.Int)
		}
		m[k].Add(m[k], x)
	}
	for _, s := range h.Steps {
		fail := func(sig, detail string) { rep.Violate(sig, detail, h.replay(s.StepNo)) }
		// escrow, at every observed state
		for _, st := range []dState{s.Pre, s.Post} {
			for _, d := range w.Denoms {
				need := new(big.Int).Add(sumRecords(st.Pending, d), sumRecords(st.Failed, d))
				if coinsOf(st.Bal[mod], d).Cmp(need) < 0 {
					fail("C11/escrow-short", fmt.Sprintf("dispensation account holds %s %s, pending+failed records sum to %s", coinsOf(st.Bal[mod], d), d, need))
				}
			}
			seen := map[string]bool{}
			for _, c := range st.Claims {
				if seen[c[0]+"/"+c[1]] {
					fail("C11/duplicate-claim", "two claims of one type for "+c[0])
				}
				seen[c[0]+"/"+c[1]] = true
			}
		}
		balDelta := func(a, d string) *big.Int {
			x := new(big.Int).Sub(coinsOf(s.Post.Bal[a], d), coinsOf(s.Pre.Bal[a], d))
			if a == s.Signer && d == "rowan" {
				x.Add(x, s.Fee)
			}
			return x
		}
		preP, postP := recMap(s.Pre.Pending), recMap(s.Post.Pending)
		if !s.OK {
			// a failed transaction changes nothing but the fee (none at all when it is refused before the ante handler)
			if new(big.Int).Sub(coinsOf(s.Post.Bal[s.Signer], "rowan"), coinsOf(s.Pre.Bal[s.Signer], "rowan")).Sign() == 0 {
				s.Fee = new(big.Int)
			}
			same := len(s.Pre.Pending) == len(s.Post.Pending) && len(s.Pre.Completed) == len(s.Post.Completed) && len(s.Pre.Failed) == len(s.Post.Failed) &&
				len(s.Pre.Dists) == len(s.Post.Dists) && len(s.Pre.Claims) == len(s.Post.Claims)
			for k, r := range preP {
				if q, ok := postP[k]; !ok || !q.Coins.IsEqual(r.Coins) {
					same = false
				}
			}
			for a := range s.Pre.Bal {
				for _, d := range w.Denoms {
					if balDelta(a, d).Sign() != 0 {
						same = false
					}
				}
			}
			if !same {
				fail("C11/failed-tx-changed-state", "a rejected "+fmt.Sprint(s.desc()["msg"])+" changed records or balances")
			}
			continue
		}
		switch s.Kind {
		case 1:
			// exactly the sum of the outputs moves from the distributor to the module account
			want := map[string]map[string]*big.Int{} // key -> denom -> amount
			for _, d := range w.Denoms {
				tot := new(big.Int)
				for _, o := range s.Outs {
					tot.Add(tot, coinsOf(o.Coins, d))
				}
				if new(big.Int).Neg(balDelta(s.Signer, d)).Cmp(tot) != 0 || balDelta(mod, d).Cmp(tot) != 0 {
					fail("C11/create-escrow-mismatch", fmt.Sprintf("outputs sum to %s %s; distributor paid %s, module received %s", tot, d, new(big.Int).Neg(balDelta(s.Signer, d)), balDelta(mod, d)))
				}
			}
			for _, o := range s.Outs {
				k := fmt.Sprintf("%s_%d_%s", s.Name, s.Type, o.Rcp)
				if want[k] == nil {
					want[k] = map[string]*big.Int{}
				}
				for _, d := range w.Denoms {
					if want[k][d] == nil {
						want[k][d] = new(big.Int)
					}
					want[k][d].Add(want[k][d], coinsOf(o.Coins, d))
					add(owed, k+"/"+d, coinsOf(o.Coins, d))
				}
			}
			// exactly those outputs are recorded as pending (added to what was pending under the same key)
			for k, q := range postP {
				for _, d := range w.Denoms {
					exp := new(big.Int)
					if r, ok := preP[k]; ok {
						exp.Add(exp, coinsOf(r.Coins, d))
					}
					if want[k] != nil {
						exp.Add(exp, want[k][d])
					}
					if coinsOf(q.Coins, d).Cmp(exp) != 0 {
						fail("C11/pending-not-outputs", fmt.Sprintf("pending record %s holds %s %s, expected %s", k, coinsOf(q.Coins, d), d, exp))
					}
				}
				if want[k] != nil && (q.Runner != s.Runner || q.Rcp == "" || q.Name != s.Name) {
					fail("C11/pending-not-outputs", "pending record "+k+" does not carry the runner authorised at creation")
				}
			}
			for k := range want {
				if _, ok := postP[k]; !ok {
					fail("C11/pending-not-outputs", "no pending record for output "+k)
				}
			}
			for k := range preP {
				if _, ok := postP[k]; !ok {
					fail("C11/pending-not-outputs", "pending record "+k+" disappeared in a create")
				}
			}
			if len(s.Post.Completed) != len(s.Pre.Completed) || len(s.Post.Failed) != len(s.Pre.Failed) {
				fail("C11/pending-not-outputs", "a create changed completed or failed records")
			}
		case 2:
			// records that left pending
			left := 0
			recv := map[string]map[string]*big.Int{}
			postC, postF := recMap(s.Post.Completed), recMap(s.Post.Failed)
			for k, r := range preP {
				q, still := postP[k]
				if still {
					if !q.Coins.IsEqual(r.Coins) {
						fail("C11/run-changed-pending", "pending record "+k+" was modified by a run")
					}
					continue
				}
				left++
				if r.Runner != s.Signer {
					fail("C11/run-by-wrong-runner", fmt.Sprintf("record %s (runner %s) was processed by a run signed by %s", k, r.Runner, s.Signer))
				}
				if r.Name != s.Name || r.Type != s.Type {
					fail("C11/run-wrong-distribution", "record "+k+" was processed by a run for "+s.Name)
				}
				c, okC := postC[k]
				f, okF := postF[k]
				switch {
				case okC && c.Coins.IsEqual(r.Coins) && c.Done == s.Pre.Height:
					acct := strings.ToLower(r.Rcp) // the account behind the address as written
					if recv[acct] == nil {
						recv[acct] = map[string]*big.Int{}
					}
					for _, d := range w.Denoms {
						if recv[acct][d] == nil {
							recv[acct][d] = new(big.Int)
						}
						recv[acct][d].Add(recv[acct][d], coinsOf(r.Coins, d))
						add(paid, k+"/"+d, coinsOf(r.Coins, d))
					}
					if r.Type == 2 || r.Type == 3 {
						for _, cl := range s.Post.Claims {
							if cl[0] == acct && cl[1] == fmt.Sprint(r.Type) {
								fail("C11/claim-not-deleted", "claim of "+r.Rcp+" survived the payment of its record")
							}
						}
					}
				case okF && f.Coins.IsEqual(r.Coins) && f.Done == s.Pre.Height:
					if !blocked[strings.ToLower(r.Rcp)] {
						fail("C11/failed-without-cause", "record "+k+" was marked failed though its recipient can receive")
					}
				default:
					fail("C11/record-lost", "record "+k+" left pending without becoming completed or failed with its coins")
				}
			}
			if int64(left) > s.Count {
				fail("C11/run-over-count", fmt.Sprintf("%d records processed, %d requested", left, s.Count))
			}
			for k := range postP {
				if _, ok := preP[k]; !ok {
					fail("C11/run-changed-pending", "a run created pending record "+k)
				}
			}
			// every account received exactly the coins of its completed records; the module paid exactly their sum
			for _, d := range w.Denoms {
				tot := new(big.Int)
				for a := range s.Pre.Bal {
					if a == mod {
						continue
					}
					exp := new(big.Int)
					if recv[a] != nil && recv[a][d] != nil {
						exp = recv[a][d]
					}
					tot.Add(tot, exp)
					if balDelta(a, d).Cmp(exp) != 0 {
						fail("C11/payment-mismatch", fmt.Sprintf("%s received %s %s, its completed records sum to %s", a, balDelta(a, d), d, exp))
					}
				}
				if new(big.Int).Neg(balDelta(mod, d)).Cmp(tot) != 0 {
					fail("C11/payment-mismatch", fmt.Sprintf("module paid %s %s, completed records sum to %s", new(big.Int).Neg(balDelta(mod, d)), d, tot))
				}
			}
		case 3:
			for _, cl := range s.Pre.Claims {
				if cl[0] == s.Signer && cl[1] == fmt.Sprint(s.Type) {
					fail("C11/duplicate-claim", "a second claim of one type was accepted for "+s.Signer)
				}
			}
			if len(s.Post.Pending) != len(s.Pre.Pending) {
				fail("C11/claim-changed-records", "a claim changed records")
			}
		}
		// at most once, in full: never more paid than recorded under a key
		for k, p := range paid {
			o := owed[k]
			if o == nil {
				o = new(big.Int)
			}
			if p.Cmp(o) > 0 {
				fail("C11/paid-more-than-recorded", fmt.Sprintf("%s: paid %s, outputs recorded %s", k, p, o))
			}
		}
	}
}

const dispRule = "one case = one DeliverTx of MsgCreateDistribution / MsgRunDistribution / MsgCreateUserClaim on the real app with observed pre- and post-state (balances of 11 accounts x 3 denoms, pending / completed / failed records in store order, distributions, claims); histories of 30 steps, 1-3 transactions per block; outputs 1-6 with duplicate recipients, 1-3 denoms, amounts log-uniform to 1e22 (1e27 in 1/12: insufficient funds), recipients users / no-account addresses / blocked module accounts, malformed coins 1/30; runs by right and wrong runner / name / type with counts 0..21; non-trivial = successful step that changed records or claims"

func countDNontrivial(hs []dHistory) int {
	n := 0
	for _, h := range hs {
		for _, s := range h.Steps {
			if s.OK && (len(s.Pre.Pending) != len(s.Post.Pending) || len(s.Pre.Claims) != len(s.Post.Claims) || s.Kind == 1) {
				n++
			}
		}
	}
	return n
}

func writeDispFiles(c Ctx, rep *report.Report, prefix string, hs []dHistory, per int) {
	var items []string
	flush := func(i int) {
		if len(items) == 0 {
			return
		}
		writeCases(c, rep, fmt.Sprintf("%s_%d.v", prefix, i), "From Sif Require Import Check.Disp.\n",
			fmt.Sprintf("Definition cases : list (list int) := %s.\nDefinition M := Eval vm_compute in (disp_mismatches cases).\n", coqList(items)))
		items = nil
	}
	file := 0
	for _, h := range hs {
		ids := h.ids()
		for _, s := range h.Steps {
			items = append(items, h.enc(s, ids))
			d := s.desc()
			d["history"] = h.ID
			rep.CaseIndex[fmt.Sprint(s.ID)] = d
			if len(items) >= per {
				flush(file)
				file++
			}
		}
	}
	flush(file)
}

// C11 — dispensation pays each record exactly once from escrowed funds.
func C11(c Ctx) *report.Report {
	rep := report.New("C11", c.Seed, c.Tier)
	rng := chain.NewRng(c.Seed + 11)
	next := 0
	hs := RunDispHistories(c, rep, rng, c.N(30, 600), 30, &next)
	for _, h := range hs {
		MonDispensation(rep, h)
		if len(rep.Samples) < 2 {
			rep.Sample(h.replay(4))
		}
	}
	rep.Evaluations = next
	rep.DistinctNontrivial = countDNontrivial(hs)
	rep.Rule = dispRule
	writeDispFiles(c, rep, "cases_C11", hs, 150)
	_ = strings.Join
	return rep
}
