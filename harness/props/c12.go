package props

import (
	"fmt"
	"math/big"
	"strings"

	clptypes "github.com/Sifchain/sifnode/x/clp/types"
	tokenregistrytypes "github.com/Sifchain/sifnode/x/tokenregistry/types"
	sdk "github.com/cosmos/cosmos-sdk/types"
	transfertypes "github.com/cosmos/ibc-go/v4/modules/apps/transfer/types"
	clienttypes "github.com/cosmos/ibc-go/v4/modules/core/02-client/types"

	"sifverif/chain"
	"sifverif/env"
	"sifverif/report"
)

func permsOfBits(bits int) []tokenregistrytypes.Permission {
	var ps []tokenregistrytypes.Permission
	for p := 1; p <= 5; p++ {
		if bits&(1<<uint(p-1)) != 0 {
			ps = append(ps, tokenregistrytypes.Permission(p))
		}
	}
	return ps
}

func regEntry(denom string, bits int) *tokenregistrytypes.RegistryEntry {
	return &tokenregistrytypes.RegistryEntry{Denom: denom, BaseDenom: denom, Decimals: 18, Permissions: permsOfBits(bits)}
}

func has(bits, p int) bool { return bits&p != 0 }

// regList: the registry as (denom id, permission bits) in list order; ids of the harness for known denoms, else 60000+n.
func regList(e *env.Env) [][2]int64 {
	var out [][2]int64
	for _, en := range e.App.TokenRegistryKeeper.GetRegistry(e.Ctx()).Entries {
		if en == nil {
			continue
		}
		out = append(out, [2]int64{denomIDAny(e, en.Denom), bitsOfPerms(en.Permissions)})
	}
	return out
}

func denomIDAny(e *env.Env, d string) int64 {
	if i, ok := e.DenomID[d]; ok {
		return i
	}
	h := int64(0)
	for _, c := range d {
		h = (h*131 + int64(c)) % 1000003
	}
	return 60000 + h
}

func bitsOfPerms(ps []tokenregistrytypes.Permission) int64 {
	b := int64(0)
	for _, p := range ps {
		switch p {
		case tokenregistrytypes.Permission_CLP:
			b |= 1
		case tokenregistrytypes.Permission_IBCEXPORT:
			b |= 2
		case tokenregistrytypes.Permission_IBCIMPORT:
			b |= 4
		case tokenregistrytypes.Permission_DISABLE_BUY:
			b |= 8
		case tokenregistrytypes.Permission_DISABLE_SELL:
			b |= 16
		}
	}
	return b
}

// regEditCase delivers a MsgRegister (op 1) / MsgDeregister (op 2) and encodes registry before, edit, registry after.
func regEditCase(e *env.Env, id int, op int64, denom string, bits int) (string, chain.TxResult) {
	pre := regList(e)
	var res chain.TxResult
	if op == 1 {
		res = e.Tx(e.Admin, &tokenregistrytypes.MsgRegister{From: e.Admin.Addr.String(), Entry: regEntry(denom, bits)})
	} else {
		res = e.Tx(e.Admin, &tokenregistrytypes.MsgDeregister{From: e.Admin.Addr.String(), Denom: denom})
	}
	post := regList(e)
	en := &env.Enc{}
	en.I(int64(id)).Len(len(pre))
	for _, x := range pre {
		en.I(x[0]).I(x[1])
	}
	en.I(op).I(denomIDAny(e, denom)).I(bitsOfPerms(permsOfBits(bits))).Len(0).Len(len(post))
	for _, x := range post {
		en.I(x[0]).I(x[1])
	}
	return en.Coq(), res
}

// regSetCase delivers a MsgSetRegistry (op 3) carrying the list given (which may be empty) and encodes registry before,
// the list, registry after.
func regSetCase(e *env.Env, id int, entries []*tokenregistrytypes.RegistryEntry) (string, chain.TxResult) {
	pre := regList(e)
	res := e.Tx(e.Admin, &tokenregistrytypes.MsgSetRegistry{From: e.Admin.Addr.String(), Registry: &tokenregistrytypes.Registry{Entries: entries}})
	post := regList(e)
	en := &env.Enc{}
	en.I(int64(id)).Len(len(pre))
	for _, x := range pre {
		en.I(x[0]).I(x[1])
	}
	en.I(3).I(0).I(0).Len(len(entries))
	for _, x := range entries {
		en.I(denomIDAny(e, x.Denom)).I(bitsOfPerms(x.Permissions))
	}
	en.Len(len(post))
	for _, x := range post {
		en.I(x[0]).I(x[1])
	}
	return en.Coq(), res
}

// C12 — exhaustive permission matrix on the real app + outgoing transfer gate.
func C12(c Ctx) *report.Report {
	rep := report.New("C12", c.Seed, c.Tier)
	rng := chain.NewRng(c.Seed + 12)
	next := 0
	var hs []History
	// rowan entry variants: all / DISABLE_SELL / DISABLE_BUY / no CLP / unregistered
	rowanModes := []int{7, 7 | 16, 7 | 8, 6, -1}
	hid := 0
	for bitsT := 0; bitsT < 32; bitsT++ {
		for _, rbits := range rowanModes {
			if c.Tier != "thorough" && (bitsT*5+len(rowanModes))%1 != 0 {
				continue
			}
			hid++
			e := env.New(env.Opts{NUsers: 3, Tokens: []string{"cdash", "ceth", "cusdc"}})
			h := History{ID: hid, Env: e, Desc: map[string]interface{}{"matrix": "amm", "token_permission_bits": bitsT, "rowan_permission_bits": rbits,
				"bit_meaning": "1 CLP, 2 IBCEXPORT, 4 IBCIMPORT, 8 DISABLE_BUY, 16 DISABLE_SELL"}}
			e.BeginBlock()
			mustOK(e.UpdateRewardsParams(0, 0, 0, "", false), "rewards params")
			u0, u1, u2 := e.Users[0], e.Users[1], e.Users[2]
			id := func(a chain.Account) int64 { return e.AcctID[a.Addr.String()] }
			big1 := func(n int64, exp int64) *big.Int { return new(big.Int).Mul(big.NewInt(n), chain.E(exp)) }
			for _, t := range []string{"ceth", "cusdc"} {
				mustOK(e.CreatePool(u0, t, big1(1000, 18), big1(2000, 18)), "create")
				mustOK(e.AddLiquidity(u1, t, big1(100, 18), big1(200, 18)), "add")
			}
			// the registry edit under test, through the real admin message
			reg := &tokenregistrytypes.Registry{}
			if rbits >= 0 {
				reg.Entries = append(reg.Entries, regEntry("rowan", rbits))
			}
			reg.Entries = append(reg.Entries, regEntry("cdash", bitsT), regEntry("ceth", bitsT), regEntry("cusdc", 7))
			mustOK(e.Tx(e.Admin, &tokenregistrytypes.MsgSetRegistry{From: e.Admin.Addr.String(), Registry: reg}), "set registry")
			ceth, cusdc, cdash := clptypes.NewAsset("ceth"), clptypes.NewAsset("cusdc"), clptypes.NewAsset("cdash")
			rowan := clptypes.NewAsset("rowan")
			tE, tU, tD := e.DenomID["ceth"], e.DenomID["cusdc"], e.DenomID["cdash"]
			step := 0
			tx := func(u chain.Account, m Msg, sm sdk.Msg) {
				recTx(&h, &next, step, u, m, sm)
				step++
			}
			n, x := big1(1000, 18), big1(3000, 18)
			m1 := clptypes.NewMsgCreatePool(u2.Addr, cdash, env.U(n), env.U(x))
			tx(u2, Msg{Tag: 1, Signer: id(u2), A: tD, X: n, Y: x}, &m1)
			a1, a2 := big1(10, 18), big1(20, 18)
			m2 := clptypes.NewMsgAddLiquidity(u1.Addr, ceth, env.U(a1), env.U(a2))
			tx(u1, Msg{Tag: 2, Signer: id(u1), A: tE, X: a1, Y: a2}, &m2)
			z := big.NewInt(0)
			m3 := clptypes.NewMsgAddLiquidity(u1.Addr, ceth, env.U(a1), env.U(z))
			tx(u1, Msg{Tag: 2, Signer: id(u1), A: tE, X: a1, Y: z}, &m3)
			m4 := clptypes.NewMsgAddLiquidity(u1.Addr, ceth, env.U(z), env.U(a2))
			tx(u1, Msg{Tag: 2, Signer: id(u1), A: tE, X: z, Y: a2}, &m4)
			m5 := clptypes.NewMsgRemoveLiquidity(u1.Addr, ceth, sdk.NewInt(1000), sdk.NewInt(0))
			tx(u1, Msg{Tag: 3, Signer: id(u1), A: tE, X: big.NewInt(1000), Y: z}, &m5)
			ru := big1(1, 18)
			m6 := clptypes.NewMsgRemoveLiquidityUnits(u1.Addr, ceth, env.U(ru))
			tx(u1, Msg{Tag: 4, Signer: id(u1), A: tE, X: ru}, &m6)
			sw := big1(1, 18)
			for _, rt := range [][2]clptypes.Asset{{rowan, ceth}, {ceth, rowan}, {ceth, cusdc}, {cusdc, ceth}} {
				m := clptypes.NewMsgSwap(u2.Addr, rt[0], rt[1], env.U(sw), env.U(z))
				tx(u2, Msg{Tag: 5, Signer: id(u2), A: e.DenomID[rt[0].Symbol], B: e.DenomID[rt[1].Symbol], X: sw, Y: z}, &m)
			}
			_ = tU
			hs = append(hs, h)
			rep.ImplTraces++
			// ---- monitor: the property restated on the observed outcomes ----
			rb := rbits
			rowanReg := rbits >= 0
			for _, s := range h.Steps {
				if !s.OK {
					if !stateUnchangedExceptFee(s) {
						rep.Violate("C12/refused-changed-state", "a refused operation changed state", replayOf(h, s.StepNo))
					}
					continue
				}
				bad := ""
				switch s.Msg.Tag {
				case 1, 3, 4:
					if !has(bitsT, 1) {
						bad = "token without AMM permission used"
					}
				case 2:
					if !has(bitsT, 1) || !rowanReg {
						bad = "liquidity added without AMM permission / native entry"
					}
					if s.Msg.Y.Sign() == 0 && rowanReg && (has(rb, 16) || has(bitsT, 8)) { // native only: sells native, buys external
						bad = "asymmetric add sold a not-sellable / bought a not-buyable token"
					}
					if s.Msg.X.Sign() == 0 && rowanReg && (has(bitsT, 16) || has(rb, 8)) {
						bad = "asymmetric add sold a not-sellable / bought a not-buyable token"
					}
				case 5:
					bitsOf := func(d int64) (int, bool) {
						switch d {
						case 0:
							return rb, rowanReg
						case tE:
							return bitsT, true
						}
						return 7, true
					}
					sb, sok := bitsOf(s.Msg.A)
					rcv, rok := bitsOf(s.Msg.B)
					if !sok || !rok || !has(sb, 1) || !has(rcv, 1) || has(sb, 16) || has(rcv, 8) {
						bad = "swap executed against the registry permissions"
					}
				}
				if bad != "" {
					rep.Violate("C12/gate-bypassed/"+MsgNames[s.Msg.Tag], bad, replayOf(h, s.StepNo))
				}
			}
			for _, s := range h.Steps {
				rep.Count(fmt.Sprintf("amm.%s.%s", MsgNames[s.Msg.Tag], okStr(s.OK)))
			}
		}
	}
	// random registry-edit histories
	o := clpOpts(c, 8, 400)
	o.Perms = true
	o.Lppd, o.Rewards = false, false
	hs2 := RunClpHistories(c, rep, rng, o, &next)
	hs = append(hs, hs2...)

	// ---- outgoing IBC transfers ----
	var trCases []string
	var reCases []string
	trID := 2000000
	e := env.New(env.Opts{NUsers: 2, Tokens: []string{"cdash", "ceth", "cusdc"}})
	e.BeginBlock()
	for bits := 0; bits < 32; bits++ {
		for variant := 0; variant < 6; variant++ { // 0 plain, 1 alias (unit_denom other), 2 unit_denom = denom, 3 unregistered, 4 alias whose base denom is the unit denom, 5 unit = denom with another base denom
			reg := &tokenregistrytypes.Registry{Entries: []*tokenregistrytypes.RegistryEntry{regEntry("rowan", 7), regEntry("cusdc", 7)}}
			en := regEntry("ceth", bits)
			switch variant {
			case 1:
				en.UnitDenom = "cusdc"
			case 2:
				en.UnitDenom = "ceth"
			case 4:
				en.UnitDenom, en.BaseDenom = "cusdc", "cusdc"
			case 5:
				en.UnitDenom, en.BaseDenom = "ceth", "eth"
			}
			if variant != 3 {
				reg.Entries = append(reg.Entries, en)
			}
			mustOK(e.Tx(e.Admin, &tokenregistrytypes.MsgSetRegistry{From: e.Admin.Addr.String(), Registry: reg}), "set registry")
			amt := RandAmount(rng, 20)
			msg := transfertypes.NewMsgTransfer("transfer", "channel-0", sdk.NewCoin("ceth", sdk.NewIntFromBigInt(amt)), e.Users[0].Addr.String(),
				"cosmos1receiver", clienttypes.NewHeight(0, 1000000), 0)
			res := e.Tx(e.Users[0], msg)
			refused := strings.Contains(res.Log, "denom is not whitelisted") || strings.Contains(res.Log, "denom aliases") ||
				strings.Contains(res.Log, "cannot be exported") || strings.Contains(res.Log, "amount too low")
			if res.Code == 0 {
				refused = false
			}
			trID++
			enc := &env.Enc{}
			enc.I(int64(trID))
			n := 2
			if variant != 3 {
				n = 3
			}
			enc.Len(n).I(0).I(7).B(false).I(e.DenomID["cusdc"]).I(7).B(false)
			if variant != 3 {
				enc.I(e.DenomID["ceth"]).I(int64(bits)).B(variant == 1 || variant == 4)
			}
			enc.I(e.DenomID["ceth"]).Z(amt).B(!refused)
			trCases = append(trCases, enc.Coq())
			desc := map[string]interface{}{"transfer": "ceth", "permission_bits": bits, "variant": []string{"plain", "alias", "unit=denom", "unregistered", "alias(base=unit)", "unit=denom(base other)"}[variant],
				"amount": amt.String(), "code": res.Code, "log": trunc(res.Log, 120)}
			rep.CaseIndex[fmt.Sprint(trID)] = desc
			rep.Count(fmt.Sprintf("transfer.%s.reached=%v", desc["variant"], !refused))
			// monitor
			allowed := variant != 3 && variant != 1 && variant != 4 && has(bits, 2)
			if refused && allowed {
				rep.Violate("C12/export-wrongly-refused", fmt.Sprintf("transfer of a registered, exportable, non-alias token (bits %d, %s) was refused by the gate", bits, desc["variant"]), desc)
			}
			if !refused && !allowed {
				rep.Violate("C12/export-gate-bypassed", fmt.Sprintf("transfer of a token with bits %d (%s) was handed to ibc-go", bits, desc["variant"]), desc)
			}
		}
		e.NextBlock()
	}
	for _, h := range hs {
		if len(rep.Samples) < 2 && len(h.Steps) > 3 {
			rep.Sample(replayOf(h, 3))
		}
	}
	rep.Evaluations = next + len(trCases) + len(reCases)
	rep.DistinctNontrivial = countNontrivial(hs) + len(trCases)
	// corpus: a registry that lists a denom twice (possible through MsgSetRegistry), then MsgDeregister: afterwards the
	// token must be unknown to the AMM and to the transfer gate
	for variant := 0; variant < 3; variant++ {
		e := env.New(env.Opts{NUsers: 3, Tokens: []string{"ceth", "cusdc"}})
		e.BeginBlock()
		mustOK(e.UpdateRewardsParams(0, 0, 0, "", false), "rewards params")
		mustOK(e.CreatePool(e.Users[0], "ceth", new(big.Int).Mul(big.NewInt(1000), chain.E(18)), new(big.Int).Mul(big.NewInt(2000), chain.E(18))), "create")
		reg := &tokenregistrytypes.Registry{Entries: []*tokenregistrytypes.RegistryEntry{regEntry("rowan", 7), regEntry("ceth", 7), regEntry("cusdc", 7)}}
		for i := 0; i < 1+variant; i++ {
			reg.Entries = append(reg.Entries, regEntry("ceth", []int{7, 3, 1}[i%3]))
		}
		mustOK(e.Tx(e.Admin, &tokenregistrytypes.MsgSetRegistry{From: e.Admin.Addr.String(), Registry: reg}), "set registry")
		rc, res := regEditCase(e, 700000+variant, 2, "ceth", 0)
		reCases = append(reCases, rc)
		desc := map[string]interface{}{"corpus": "denom listed more than once, then MsgDeregister", "copies": 2 + variant, "deregister_code": res.Code}
		if res.Code == 0 {
			left := 0
			for _, en := range e.App.TokenRegistryKeeper.GetRegistry(e.Ctx()).Entries {
				if en != nil && en.Denom == "ceth" {
					left++
				}
			}
			if left != 0 {
				rep.Violate("C12/deregister-left-entry", fmt.Sprintf("after an accepted MsgDeregister the registry still lists the denom %d time(s)", left), desc)
			}
			sw := e.Swap(e.Users[1], "rowan", "ceth", chain.E(18), big.NewInt(0))
			ad := e.AddLiquidity(e.Users[1], "ceth", chain.E(18), new(big.Int).Mul(big.NewInt(2), chain.E(18)))
			if sw.Code == 0 || ad.Code == 0 {
				rep.Violate("C12/amm-after-deregister", fmt.Sprintf("after MsgDeregister: swap code %d, add code %d", sw.Code, ad.Code), desc)
			}
		}
		rep.Count("corpus.duplicate-denom-deregister")
		next++
	}
	// corpus: the administrator replaces the registry by a shorter one (empty; rowan only): from the next message on the
	// tokens it no longer lists are unknown to the AMM
	for variant := 0; variant < 2; variant++ {
		e := env.New(env.Opts{NUsers: 3, Tokens: []string{"ceth", "cusdc"}})
		e.BeginBlock()
		mustOK(e.UpdateRewardsParams(0, 0, 0, "", false), "rewards params")
		mustOK(e.CreatePool(e.Users[0], "ceth", new(big.Int).Mul(big.NewInt(1000), chain.E(18)), new(big.Int).Mul(big.NewInt(2000), chain.E(18))), "create")
		mustOK(e.AddLiquidity(e.Users[1], "ceth", chain.E(18), new(big.Int).Mul(big.NewInt(2), chain.E(18))), "add")
		var l []*tokenregistrytypes.RegistryEntry
		if variant == 1 {
			l = append(l, regEntry("rowan", 7))
		}
		rc, res := regSetCase(e, 700020+variant, l)
		desc := map[string]interface{}{"corpus": "MsgSetRegistry with a shorter list, then AMM messages on a token it no longer lists", "entries_in_the_message": len(l), "set_registry_code": res.Code}
		if res.Code == 0 {
			reCases = append(reCases, rc)
			if got := len(regList(e)); got != len(l) {
				rep.Violate("C12/set-registry-not-in-force", fmt.Sprintf("after an accepted MsgSetRegistry with %d entries the registry lists %d", len(l), got), desc)
			}
			sw := e.Swap(e.Users[1], "rowan", "ceth", chain.E(18), big.NewInt(0))
			ad := e.AddLiquidity(e.Users[1], "ceth", chain.E(18), new(big.Int).Mul(big.NewInt(2), chain.E(18)))
			rm := e.RemoveLiquidity(e.Users[1], "ceth", 5000, 0)
			if sw.Code == 0 || ad.Code == 0 || rm.Code == 0 {
				rep.Violate("C12/amm-after-registry-replaced", fmt.Sprintf("after MsgSetRegistry without ceth: swap code %d, add code %d, remove code %d", sw.Code, ad.Code, rm.Code), desc)
			}
		}
		rep.Count("corpus.registry-replaced-by-shorter")
		next++
	}
	// corpus: MsgRegister of a denom that is already registered replaces its entry, wherever it stands in the list (first,
	// middle, last); the gate then follows the new permissions
	for pos := 0; pos < 3; pos++ {
		e := env.New(env.Opts{NUsers: 3, Tokens: []string{"ceth", "cusdc"}})
		e.BeginBlock()
		mustOK(e.UpdateRewardsParams(0, 0, 0, "", false), "rewards params")
		mustOK(e.CreatePool(e.Users[0], "ceth", new(big.Int).Mul(big.NewInt(1000), chain.E(18)), new(big.Int).Mul(big.NewInt(2000), chain.E(18))), "create")
		order := [][]string{{"ceth", "rowan", "cusdc"}, {"rowan", "ceth", "cusdc"}, {"rowan", "cusdc", "ceth"}}[pos]
		reg := &tokenregistrytypes.Registry{}
		for _, d := range order {
			reg.Entries = append(reg.Entries, regEntry(d, 7))
		}
		mustOK(e.Tx(e.Admin, &tokenregistrytypes.MsgSetRegistry{From: e.Admin.Addr.String(), Registry: reg}), "set registry")
		rc, res := regEditCase(e, 700010+pos, 1, "ceth", 2) // IBC export only: no CLP permission
		reCases = append(reCases, rc)
		desc := map[string]interface{}{"corpus": "MsgRegister edits an entry in place", "registry_order": order, "register_code": res.Code}
		if res.Code == 0 {
			n, perms := 0, ""
			for _, en := range e.App.TokenRegistryKeeper.GetRegistry(e.Ctx()).Entries {
				if en != nil && en.Denom == "ceth" {
					n++
					perms = fmt.Sprint(en.Permissions)
				}
			}
			if n != 1 {
				rep.Violate("C12/register-duplicates-entry", fmt.Sprintf("after MsgRegister of a registered denom the registry lists it %d times (last permissions %s)", n, perms), desc)
			}
			sw := e.Swap(e.Users[1], "rowan", "ceth", chain.E(18), big.NewInt(0))
			ad := e.AddLiquidity(e.Users[1], "ceth", chain.E(18), new(big.Int).Mul(big.NewInt(2), chain.E(18)))
			if sw.Code == 0 || ad.Code == 0 {
				rep.Violate("C12/amm-after-permission-withdrawn", fmt.Sprintf("CLP permission withdrawn by MsgRegister, yet swap code %d, add code %d", sw.Code, ad.Code), desc)
			}
		}
		rep.Count("corpus.register-edits-in-place")
		next++
	}
	// random registry edits against the model of SetToken / RemoveToken
	for i := 0; i < c.N(20, 400); i++ {
		e := env.New(env.Opts{NUsers: 1, Tokens: []string{"ceth", "cusdc"}})
		e.BeginBlock()
		denoms := []string{"rowan", "ceth", "cusdc", "cdash", "clink"}
		reg := &tokenregistrytypes.Registry{}
		for k := 0; k < rng.Intn(7); k++ {
			reg.Entries = append(reg.Entries, regEntry(denoms[rng.Intn(len(denoms))], rng.Intn(32)))
		}
		if e.Tx(e.Admin, &tokenregistrytypes.MsgSetRegistry{From: e.Admin.Addr.String(), Registry: reg}).Code != 0 {
			continue
		}
		for k := 0; k < 4; k++ {
			if rng.Intn(4) == 0 { // the whole list replaced: by nothing, by one entry, by several
				var l []*tokenregistrytypes.RegistryEntry
				for q := 0; q < []int{0, 0, 1, 3}[rng.Intn(4)]; q++ {
					l = append(l, regEntry(denoms[rng.Intn(len(denoms))], rng.Intn(32)))
				}
				rc, res := regSetCase(e, 710000+i*10+k, l)
				if res.Code == 0 {
					reCases = append(reCases, rc)
				}
				rep.Count(fmt.Sprintf("registry-edit.set-registry-%d-entries", len(l)))
				continue
			}
			rc, _ := regEditCase(e, 710000+i*10+k, int64(1+rng.Intn(2)), denoms[rng.Intn(len(denoms))], rng.Intn(32))
			reCases = append(reCases, rc)
			rep.Count("registry-edit")
		}
	}
	// look-alike denominations: bank denoms are case-sensitive (a lock claim for ETH mints cETH, an IBC voucher is
	// ibc/<UPPER-CASE HASH>), so a token that differs from a registered one only in the case of its letters is another,
	// unregistered token (or a registered one with its own permissions): every gate must treat it as such
	for variant := 0; variant < 4; variant++ {
		e := env.New(env.Opts{NUsers: 2, Tokens: []string{"cETH", "ceth", "cusdc"}})
		e.BeginBlock()
		mustOK(e.UpdateRewardsParams(0, 0, 0, "", false), "rewards params")
		reg := &tokenregistrytypes.Registry{Entries: []*tokenregistrytypes.RegistryEntry{regEntry("rowan", 7), regEntry("ceth", 7), regEntry("cusdc", 7)}}
		what := "the look-alike cETH is not registered"
		switch variant {
		case 1:
			reg.Entries = append(reg.Entries, regEntry("cETH", 0))
			what = "the look-alike cETH is registered without permissions, after ceth"
		case 2:
			reg.Entries = append([]*tokenregistrytypes.RegistryEntry{regEntry("cETH", 0)}, reg.Entries...)
			what = "the look-alike cETH is registered without permissions, before ceth"
		case 3:
			reg.Entries = []*tokenregistrytypes.RegistryEntry{regEntry("rowan", 7), regEntry("cETH", 7), regEntry("cusdc", 7)}
			what = "cETH is registered with every permission, ceth is not registered"
		}
		mustOK(e.Tx(e.Admin, &tokenregistrytypes.MsgSetRegistry{From: e.Admin.Addr.String(), Registry: reg}), "set registry")
		good, bad := "ceth", "cETH"
		if variant == 3 {
			good, bad = "cETH", "ceth"
		}
		n := new(big.Int).Mul(big.NewInt(1000), chain.E(18))
		if r0 := e.CreatePool(e.Users[0], good, n, n); r0.Code != 0 {
			rep.Violate("C12/lookalike-denom/registered-token-refused", fmt.Sprintf("creating the pool of %s (registered with every permission) was refused where %s: %s", good, what, trunc(r0.Log, 100)),
				map[string]interface{}{"registry": what, "operation": "CreatePool", "token": good, "code": r0.Code, "log": trunc(r0.Log, 120)})
		}
		u := e.Users[1]
		bal := func() string { return e.App.BankKeeper.GetAllBalances(e.Ctx(), u.Addr).String() }
		try := func(op string, f func() chain.TxResult) {
			before := bal()
			res := f()
			after := bal()
			rep.Count("lookalike." + op + "." + okStr(res.Code == 0))
			d := map[string]interface{}{"registry": what, "operation": op, "token": bad, "code": res.Code, "log": trunc(res.Log, 120)}
			if res.Code == 0 {
				rep.Violate("C12/lookalike-denom-accepted/"+op, fmt.Sprintf("%s on %s was accepted although %s", op, bad, what), d)
			} else if stripFee(before) != stripFee(after) {
				rep.Violate("C12/lookalike-denom-moved-coins/"+op, fmt.Sprintf("a refused %s on %s changed balances", op, bad), d)
			}
			next++
		}
		try("CreatePool", func() chain.TxResult { return e.CreatePool(u, bad, n, n) })
		try("AddLiquidity", func() chain.TxResult { return e.AddLiquidity(u, bad, chain.E(18), chain.E(18)) })
		try("Swap-buy", func() chain.TxResult { return e.Swap(u, "rowan", bad, chain.E(18), big.NewInt(0)) })
		try("Swap-sell", func() chain.TxResult { return e.Swap(u, bad, "rowan", chain.E(18), big.NewInt(0)) })
		try("RemoveLiquidity", func() chain.TxResult { return e.RemoveLiquidity(u, bad, 1000, 0) })
		try("IBC-transfer", func() chain.TxResult {
			m := transfertypes.NewMsgTransfer("transfer", "channel-0", sdk.NewCoin(bad, sdk.NewInt(1000)), u.Addr.String(), "cosmos1x", clienttypes.NewHeight(0, 100000), 0)
			return e.Tx(u, m)
		})
	}
	rep.Rule = "exhaustive matrix on the real app: every subset of the five permissions on the pool token x five native-token entries (all, not-sellable, not-buyable, no AMM permission, unregistered) x create / symmetric add / native-only add / external-only add / remove / remove-units / four swap routes, the registry being edited by the real MsgSetRegistry after the pools exist; plus random histories under random registries; plus 128 outgoing transfers (32 permission subsets x plain / alias / unit=denom / unregistered)"
	rep.Distribution["exhaustive_amm_matrix"] = true
	var all []Step
	for _, h := range hs {
		all = append(all, h.Steps...)
	}
	rep.Evaluations = next + len(trCases) + len(reCases)
	per := 450
	for s := 0; s*per < len(all); s++ {
		end := (s + 1) * per
		if end > len(all) {
			end = len(all)
		}
		var items []string
		for _, st := range all[s*per : end] {
			items = append(items, st.Enc())
			rep.CaseIndex[fmt.Sprint(st.ID)] = st.JSON()
		}
		tr, re := "[]", "[]"
		if s == 0 {
			tr, re = coqList(trCases), coqList(reCases)
		}
		writeCases(c, rep, fmt.Sprintf("cases_C12_%d.v", s), "From Sif Require Import Check.C12.\n",
			fmt.Sprintf("Definition steps : list (list int) := %s.\nDefinition trs : list (list int) := %s.\nDefinition res : list (list int) := %s.\nDefinition M := Eval vm_compute in (c12_mismatches_re steps trs res).\n", coqList(items), tr, re))
	}
	return rep
}

// stripFee: a balance listing without its rowan entry (the fee of a refused transaction is kept)
func stripFee(coins string) string {
	var out []string
	for _, c := range strings.Split(coins, ",") {
		if !strings.HasSuffix(c, "rowan") {
			out = append(out, c)
		}
	}
	return strings.Join(out, ",")
}
