package props

import (
	"fmt"
	"math/big"
	"strings"

	clptypes "github.com/Sifchain/sifnode/x/clp/types"
	margintypes "github.com/Sifchain/sifnode/x/margin/types"
	sdk "github.com/cosmos/cosmos-sdk/types"

	"sifverif/chain"
	"sifverif/env"
	"sifverif/report"
)

// MStep is one observed transition of the real application as far as x/margin is concerned.
type MStep struct {
	ID        int
	Kind      int // 1 margin tx (modelled), 2 other tx / admin message (monitored only), 3 BeginBlock
	Tag       int // 1 Open 2 Close 3 AdminClose
	Signer    int64
	Coll, Bor int64
	Amt, Lev  *big.Int
	Addr, PID int64
	IsAdmin   bool
	TakeFund  bool
	HealthLow bool
	Rates     [][3]*big.Int
	OK        bool
	Pre, Post env.MarginState
	Desc      map[string]interface{}
	StepNo    int
	NewHealth *big.Int // Open: health of the new position recomputed on the post-state by the real UpdateMTPHealth
}

func (s MStep) Enc() string {
	e := &env.Enc{}
	e.I(int64(s.ID))
	if s.Kind == 1 {
		e.I(1).I(int64(s.Tag))
		switch s.Tag {
		case 1:
			e.I(s.Signer).I(s.Coll).I(s.Bor).Z(s.Amt).Z(s.Lev)
		case 2:
			e.I(s.Signer).I(s.PID)
		default:
			e.B(s.IsAdmin).I(s.Signer).I(s.Addr).I(s.PID).B(s.TakeFund)
		}
		e.Z(chain.E(18)).B(s.HealthLow)
	} else {
		e.I(3).Len(len(s.Rates))
		for _, r := range s.Rates {
			e.Z(r[0]).Z(r[1]).Z(r[2])
		}
	}
	e.B(s.OK).Margin(s.Pre).Margin(s.Post)
	return e.Coq()
}

type MHistory struct {
	ID    int
	Env   *env.Env
	Steps []MStep
	Desc  map[string]interface{}
	// the swaps and liquidity changes of the history as transitions of the AMM model: pools that carry liabilities and
	// custody of real positions, removals against the pool-health gate
	ClpSteps []Step
}

func (h MHistory) replay(upto int) map[string]interface{} {
	var steps []interface{}
	for _, s := range h.Steps {
		if s.StepNo > upto {
			break
		}
		d := map[string]interface{}{"step": s.StepNo, "ok": s.OK, "height": s.Pre.Height}
		for k, v := range s.Desc {
			d[k] = v
		}
		steps = append(steps, d)
	}
	return map[string]interface{}{"setup": h.Desc, "steps": steps}
}

type marginWorld struct {
	*env.Env
	FundFC, FundInc chain.Account
	Toks            []string
}

func newMarginWorld(rng *chain.Rng, desc map[string]interface{}) *marginWorld {
	toks := []string{"ceth", "cusdc"}[:1+rng.Intn(2)]
	e := env.New(env.Opts{NUsers: 4, Tokens: toks})
	w := &marginWorld{Env: e, FundFC: chain.NewAccount("fundfc"), FundInc: chain.NewAccount("fundinc"), Toks: toks}
	addrs := []string{e.Admin.Addr.String(), w.FundFC.Addr.String(), w.FundInc.Addr.String()}
	for _, u := range e.Users {
		addrs = append(addrs, u.Addr.String())
	}
	e.AssignAccountIDs(addrs)
	e.BeginBlock()
	mustOK(e.UpdateRewardsParams(0, 0, 0, "", false), "rewards params")
	for _, t := range toks {
		n := new(big.Int).Mul(big.NewInt(int64(1000+rng.Intn(1000000))), chain.E(18))
		x := new(big.Int).Mul(big.NewInt(int64(1000+rng.Intn(1000000))), chain.E(int64(6+rng.Intn(13))))
		mustOK(e.CreatePool(e.Users[0], t, n, x), "create pool")
	}
	w.setParams(rng, desc)
	up := margintypes.MsgUpdatePools{Signer: e.Admin.Addr.String(), Pools: toks}
	if len(toks) > 1 && rng.Intn(6) == 0 {
		up.Pools = toks[:1]
	}
	mustOK(e.Tx(e.Admin, &up), "margin pools")
	desc["tokens"], desc["margin_pools"] = toks, up.Pools
	return w
}

func (w *marginWorld) setParams(rng *chain.Rng, desc map[string]interface{}) {
	pct := func() sdk.Dec { return sdk.NewDecWithPrec(int64(rng.Intn(6)*5), 2) }
	ps := margintypes.Params{
		LeverageMax:                              sdk.NewDec(int64(2 + rng.Intn(9))),
		HealthGainFactor:                         sdk.NewDec(1),
		InterestRateMin:                          sdk.NewDecWithPrec(int64(1+rng.Intn(50)), 3),
		InterestRateMax:                          sdk.NewDec(int64(1 + rng.Intn(3))),
		InterestRateDecrease:                     sdk.NewDecWithPrec(int64(1+rng.Intn(9)), 1),
		InterestRateIncrease:                     sdk.NewDecWithPrec(int64(1+rng.Intn(9)), 1),
		ForceCloseFundPercentage:                 pct(),
		ForceCloseFundAddress:                    w.FundFC.Addr.String(),
		IncrementalInterestPaymentFundPercentage: pct(),
		IncrementalInterestPaymentFundAddress:    w.FundInc.Addr.String(),
		PoolOpenThreshold:                        sdk.NewDecWithPrec(1, 1),
		RemovalQueueThreshold:                    sdk.MustNewDecFromStr([]string{"0.1", "0.5", "0.9", "0.99", "0.999"}[rng.Intn(5)]),
		EpochLength:                              int64(1 + rng.Intn(4)),
		MaxOpenPositions:                         uint64(3 + rng.Intn(40)),
		SqModifier:                               sdk.MustNewDecFromStr("10000000000000000000000000"),
		SafetyFactor:                             sdk.NewDecWithPrec(int64(100+rng.Intn(60)), 2),
		IncrementalInterestPaymentEnabled:        rng.Intn(4) != 0,
		WhitelistingEnabled:                      false,
		RowanCollateralEnabled:                   rng.Intn(8) != 0,
	}
	if rng.Intn(6) == 0 {
		ps.InterestRateMin = sdk.ZeroDec()
	}
	m := margintypes.MsgUpdateParams{Signer: w.Admin.Addr.String(), Params: &ps}
	mustOK(w.Tx(w.Admin, &m), "margin params")
	desc["epoch_length"], desc["safety_factor"], desc["leverage_max"] = ps.EpochLength, ps.SafetyFactor.String(), ps.LeverageMax.String()
	desc["incremental_interest"], desc["fund_pct"] = ps.IncrementalInterestPaymentEnabled, []string{ps.ForceCloseFundPercentage.String(), ps.IncrementalInterestPaymentFundPercentage.String()}
	desc["interest_min_max"] = []string{ps.InterestRateMin.String(), ps.InterestRateMax.String()}
}

func mpoolOf(s env.MarginState, asset int64) *env.MPool {
	for i := range s.Pools {
		if s.Pools[i].Asset == asset {
			return &s.Pools[i]
		}
	}
	return nil
}

func mbal(s env.MarginState, acct, denom int64) *big.Int {
	for _, b := range s.Balances {
		if b.Acct == acct && b.Denom == denom {
			return b.Amt
		}
	}
	return big.NewInt(0)
}

func mtpIn(s env.MarginState, addr, id int64) *env.MTP {
	for i := range s.MTPs {
		if s.MTPs[i].Addr == addr && s.MTPs[i].ID == id {
			return &s.MTPs[i]
		}
	}
	return nil
}

// RunMarginHistories drives the real app with open / close / admin close / price moves / parameter changes
// across epoch boundaries and records every transition.
func RunMarginHistories(c Ctx, rep *report.Report, rng *chain.Rng, n, steps int, nextID *int) []MHistory {
	var hs []MHistory
	for hi := 0; hi < n; hi++ {
		desc := map[string]interface{}{"seed": c.Seed, "history": hi}
		w := newMarginWorld(rng, desc)
		e := w.Env
		h := MHistory{ID: hi, Env: e, Desc: desc}
		rec := func(st MStep) {
			*nextID++
			st.ID = *nextID
			h.Steps = append(h.Steps, st)
		}
		for st := 0; st < steps; st++ {
			pre := e.MarginSnapshot()
			u := e.Users[rng.Intn(len(e.Users))]
			uid := e.AcctID[u.Addr.String()]
			tok := w.Toks[rng.Intn(len(w.Toks))]
			tid := e.DenomID[tok]
			k := rng.Intn(100)
			switch {
			case k < 30: // open
				coll, bor := "rowan", tok
				if rng.Intn(2) == 0 {
					coll, bor = tok, "rowan"
				}
				if rng.Intn(12) == 0 { // neither or both assets native (refused since the fix of F-17)
					coll, bor = tok, w.Toks[rng.Intn(len(w.Toks))]
					if rng.Intn(4) == 0 {
						coll, bor = "rowan", "rowan"
					}
				}
				pool := mpoolOf(pre, tid)
				base := pool.NB
				if coll != "rowan" {
					base = pool.EB
				}
				if coll != "rowan" && bor != "rowan" {
					tok = coll
				}
				amt := new(big.Int).Div(base, big.NewInt(int64(20+rng.Intn(2000))))
				switch rng.Intn(10) {
				case 0:
					amt = RandAmount(rng, 30)
				case 1:
					amt = big.NewInt(int64(1 + rng.Intn(1000)))
				case 2:
					amt = new(big.Int).Div(base, big.NewInt(int64(1+rng.Intn(4)))) // borrow too high / unhealthy
				}
				lev := sdk.NewDecWithPrec(int64(100+rng.Intn(1100)), 2)
				if rng.Intn(5) == 0 {
					lev = sdk.NewDec(int64(1 + rng.Intn(12)))
				}
				m := margintypes.MsgOpen{Signer: u.Addr.String(), CollateralAsset: coll, CollateralAmount: env.U(amt), BorrowAsset: bor, Position: margintypes.Position_LONG, Leverage: lev}
				cp, _ := e.App.ClpKeeper.GetPool(e.Ctx(), tok)
				hl := !cp.Health.IsNil() && cp.Health.LTE(e.App.MarginKeeper.GetPoolOpenThreshold(e.Ctx()))
				res := e.Tx(u, &m)
				post := e.MarginSnapshot()
				if res.Code != 0 && mbal(pre, uid, 0).Cmp(mbal(post, uid, 0)) == 0 {
					rep.Count("margin.tx.ante-failed")
					continue
				}
				ms := MStep{Kind: 1, Tag: 1, Signer: uid, Coll: e.DenomID[coll], Bor: e.DenomID[bor], Amt: amt, Lev: new(big.Int).Set(lev.BigInt()), HealthLow: hl, OK: res.Code == 0,
					Pre: pre, Post: post, StepNo: st, Desc: map[string]interface{}{"tx": "margin Open", "signer": u.Addr.String(), "collateral": amt.String() + coll, "borrow": bor, "leverage": lev.String(), "log": trunc(res.Log, 120)}}
				if res.Code == 0 {
					// the new position's health on the state the transaction left behind
					for _, mt := range e.App.MarginKeeper.GetAllMTPS(e.Ctx()) {
						if mt.Address == u.Addr.String() && mtpIn(pre, uid, int64(mt.Id)) == nil {
							pp, _ := e.App.ClpKeeper.GetPool(e.Ctx(), tok)
							if hv, err := e.App.MarginKeeper.UpdateMTPHealth(e.Ctx(), *mt, pp); err == nil {
								ms.NewHealth = new(big.Int).Set(hv.BigInt())
							}
						}
					}
				}
				rec(ms)
				rep.Count("margin.tx.Open." + okStr(res.Code == 0))
			case k < 48 && len(pre.MTPs) > 0: // close
				mt := pre.MTPs[rng.Intn(len(pre.MTPs))]
				signer := u
				if rng.Intn(5) != 0 {
					for _, x := range e.Users {
						if e.AcctID[x.Addr.String()] == mt.Addr {
							signer = x
						}
					}
				}
				sid := e.AcctID[signer.Addr.String()]
				m := margintypes.MsgClose{Signer: signer.Addr.String(), Id: uint64(mt.ID)}
				res := e.Tx(signer, &m)
				post := e.MarginSnapshot()
				if res.Code != 0 && mbal(pre, sid, 0).Cmp(mbal(post, sid, 0)) == 0 {
					rep.Count("margin.tx.ante-failed")
					continue
				}
				rec(MStep{Kind: 1, Tag: 2, Signer: sid, PID: mt.ID, Addr: sid, OK: res.Code == 0, Pre: pre, Post: post, StepNo: st,
					Desc: map[string]interface{}{"tx": "margin Close", "signer": signer.Addr.String(), "id": mt.ID, "owner": e.AcctOf[mt.Addr], "log": trunc(res.Log, 120)}})
				rep.Count("margin.tx.Close." + okStr(res.Code == 0))
			case k < 56 && len(pre.MTPs) > 0: // admin close (by the admin or by somebody else)
				mt := pre.MTPs[rng.Intn(len(pre.MTPs))]
				signer := e.Admin
				if rng.Intn(4) == 0 {
					signer = u
				}
				sid := e.AcctID[signer.Addr.String()]
				tf := rng.Intn(2) == 0
				m := margintypes.MsgAdminClose{Signer: signer.Addr.String(), MtpAddress: e.AcctOf[mt.Addr], Id: uint64(mt.ID), TakeMarginFund: tf}
				res := e.Tx(signer, &m)
				post := e.MarginSnapshot()
				if res.Code != 0 && mbal(pre, sid, 0).Cmp(mbal(post, sid, 0)) == 0 {
					rep.Count("margin.tx.ante-failed")
					continue
				}
				rec(MStep{Kind: 1, Tag: 3, Signer: sid, Addr: mt.Addr, PID: mt.ID, IsAdmin: signer.Addr.Equals(e.Admin.Addr), TakeFund: tf, OK: res.Code == 0, Pre: pre, Post: post, StepNo: st,
					Desc: map[string]interface{}{"tx": "margin AdminClose", "signer": signer.Addr.String(), "owner": e.AcctOf[mt.Addr], "id": mt.ID, "take_fund": tf, "log": trunc(res.Log, 120)}})
				rep.Count("margin.tx.AdminClose." + okStr(res.Code == 0))
			case k < 80: // price move: swap
				pool := mpoolOf(pre, tid)
				from, to := "rowan", tok
				base := pool.NB
				if rng.Intn(2) == 0 {
					from, to, base = tok, "rowan", pool.EB
				}
				amt := new(big.Int).Div(base, big.NewInt(int64(2+rng.Intn(60))))
				if rng.Intn(6) == 0 {
					amt = new(big.Int).Mul(base, big.NewInt(int64(1+rng.Intn(4))))
				}
				cpre := e.Snapshot()
				res := e.Swap(u, from, to, amt, big.NewInt(0))
				cpost := e.Snapshot()
				if !(res.Code != 0 && balOf(cpre, uid, 0).Cmp(balOf(cpost, uid, 0)) == 0) {
					*nextID++
					h.ClpSteps = append(h.ClpSteps, Step{ID: *nextID, Kind: 1, Msg: Msg{Tag: 5, Signer: uid, A: e.DenomID[from], B: e.DenomID[to], X: amt, Y: big.NewInt(0)}, Fee: chain.E(18), OK: res.Code == 0,
						Pre: cpre, Post: cpost, Log: trunc(res.Log, 160), HistID: hi, StepNo: st, EnvRef: e, Signer: u})
				}
				rec(MStep{Kind: 2, OK: res.Code == 0, Pre: pre, Post: e.MarginSnapshot(), StepNo: st, Desc: map[string]interface{}{"tx": "clp Swap", "signer": u.Addr.String(), "from": from, "to": to, "amount": amt.String()}})
				rep.Count("margin.other.Swap." + okStr(res.Code == 0))
			case k < 88: // liquidity change
				pool := mpoolOf(pre, tid)
				var res chain.TxResult
				what := "clp AddLiquidity"
				cpre := e.Snapshot()
				var cm Msg
				cs := u
				if rng.Intn(2) == 0 {
					d := big.NewInt(int64(2 + rng.Intn(20)))
					an, ax := new(big.Int).Div(pool.NB, d), new(big.Int).Div(pool.EB, d)
					res = e.AddLiquidity(u, tok, an, ax)
					cm = Msg{Tag: 2, Signer: uid, A: tid, X: an, Y: ax}
				} else if lp0 := lpOf(cpre, tid, e.AcctID[e.Users[0].Addr.String()]); lp0 != nil && lp0.Units.Sign() > 0 && rng.Intn(2) == 0 {
					what = "clp RemoveLiquidityUnits"
					// by units: a sliver, or a share of the creator's units
					un := new(big.Int).Div(lp0.Units, big.NewInt(int64(2+rng.Intn(5000))))
					if rng.Intn(3) == 0 {
						un = new(big.Int).Div(lp0.Units, big.NewInt(1000000000))
					}
					if un.Sign() == 0 {
						un = big.NewInt(1)
					}
					cs = e.Users[0]
					res = e.RemoveLiquidityUnits(cs, tok, un)
					cm = Msg{Tag: 4, Signer: e.AcctID[cs.Addr.String()], A: tid, X: un}
				} else {
					what = "clp RemoveLiquidity"
					// up to the whole of the creator's share: large removals run into the pool-health gate
					wb := int64(1 + rng.Intn(3000))
					if rng.Intn(3) == 0 {
						wb = int64(3000 + rng.Intn(7001))
					}
					cs = e.Users[0]
					res = e.RemoveLiquidity(cs, tok, wb, 0)
					cm = Msg{Tag: 3, Signer: e.AcctID[cs.Addr.String()], A: tid, X: big.NewInt(wb), Y: big.NewInt(0)}
				}
				cpost := e.Snapshot()
				if !(res.Code != 0 && balOf(cpre, cm.Signer, 0).Cmp(balOf(cpost, cm.Signer, 0)) == 0) {
					*nextID++
					h.ClpSteps = append(h.ClpSteps, Step{ID: *nextID, Kind: 1, Msg: cm, Fee: chain.E(18), OK: res.Code == 0, Pre: cpre, Post: cpost, Log: trunc(res.Log, 160), HistID: hi, StepNo: st, EnvRef: e, Signer: cs})
					if strings.Contains(res.Log, "health") || strings.Contains(res.Log, "queued") {
						rep.Count("margin.other.removal-stopped-by-pool-health")
					}
				}
				rec(MStep{Kind: 2, OK: res.Code == 0, Pre: pre, Post: e.MarginSnapshot(), StepNo: st, Desc: map[string]interface{}{"tx": what, "token": tok}})
				rep.Count("margin.other.liquidity." + okStr(res.Code == 0))
			case k < 92: // the administrator changes the parameters (safety factor, rates, fund percentages, epoch length)
				d := map[string]interface{}{"tx": "margin UpdateParams"}
				w.setParams(rng, d)
				rec(MStep{Kind: 2, OK: true, Pre: pre, Post: e.MarginSnapshot(), StepNo: st, Desc: d})
				rep.Count("margin.other.UpdateParams")
			}
			if (st+1)%3 == 0 {
				if e.EndBlock() {
					rep.Count("margin.hook.EndBlock.panic")
					break
				}
				e.Commit()
				pre := e.MarginSnapshot()
				panicked := e.BeginBlock()
				post := e.MarginSnapshot()
				pre.Height = post.Height
				var rates [][3]*big.Int
				for _, p := range pre.Pools {
					q := mpoolOf(post, p.Asset)
					if q == nil {
						q = &p
					}
					rates = append(rates, [3]*big.Int{q.Rate, q.RN, q.RD})
				}
				rec(MStep{Kind: 3, Rates: rates, OK: !panicked, Pre: pre, Post: post, StepNo: st, Desc: map[string]interface{}{"hook": "BeginBlock"}})
				rep.Count("margin.hook.BeginBlock")
				if len(pre.MTPs) > len(post.MTPs) {
					rep.Count("margin.hook.BeginBlock.liquidated")
				}
				if panicked {
					rep.Count("margin.hook.BeginBlock.panic")
					break
				}
			}
		}
		hs = append(hs, h)
		rep.ImplTraces++
	}
	return hs
}

// ScriptExtExt: corpus history — a position whose collateral and borrowed asset are BOTH external tokens.
func ScriptExtExt(hid int, nextID *int) MHistory {
	desc := map[string]interface{}{"corpus": "collateral and borrow asset both external"}
	e := env.New(env.Opts{NUsers: 4, Tokens: []string{"ceth", "cusdc"}})
	w := &marginWorld{Env: e, FundFC: chain.NewAccount("fundfc"), FundInc: chain.NewAccount("fundinc"), Toks: []string{"ceth", "cusdc"}}
	addrs := []string{e.Admin.Addr.String(), w.FundFC.Addr.String(), w.FundInc.Addr.String()}
	for _, u := range e.Users {
		addrs = append(addrs, u.Addr.String())
	}
	e.AssignAccountIDs(addrs)
	e.BeginBlock()
	mustOK(e.UpdateRewardsParams(0, 0, 0, "", false), "rewards params")
	// rowan is worth 100 cusdc: 10,000 rowan against 1,000,000 cusdc
	mustOK(e.CreatePool(e.Users[0], "cusdc", new(big.Int).Mul(big.NewInt(10000), chain.E(18)), new(big.Int).Mul(big.NewInt(1000000), chain.E(18))), "create pool")
	mustOK(e.CreatePool(e.Users[0], "ceth", new(big.Int).Mul(big.NewInt(10000), chain.E(18)), new(big.Int).Mul(big.NewInt(10000), chain.E(18))), "create pool")
	ps := *margintypes.DefaultGenesis().Params
	ps.ForceCloseFundAddress, ps.IncrementalInterestPaymentFundAddress = w.FundFC.Addr.String(), w.FundInc.Addr.String()
	ps.LeverageMax = sdk.NewDec(2)
	mustOK(e.Tx(e.Admin, &margintypes.MsgUpdateParams{Signer: e.Admin.Addr.String(), Params: &ps}), "margin params")
	mustOK(e.Tx(e.Admin, &margintypes.MsgUpdatePools{Signer: e.Admin.Addr.String(), Pools: []string{"ceth", "cusdc"}}), "margin pools")
	h := MHistory{ID: hid, Env: e, Desc: desc}
	e.NextBlock()
	e.NextBlock()
	u := e.Users[2]
	uid := e.AcctID[u.Addr.String()]
	amt := new(big.Int).Mul(big.NewInt(40), chain.E(18))
	pre := e.MarginSnapshot()
	cp0, _ := e.App.ClpKeeper.GetPool(e.Ctx(), "cusdc")
	hl0 := !cp0.Health.IsNil() && cp0.Health.LTE(e.App.MarginKeeper.GetPoolOpenThreshold(e.Ctx()))
	m := margintypes.MsgOpen{Signer: u.Addr.String(), CollateralAsset: "cusdc", CollateralAmount: env.U(amt), BorrowAsset: "ceth", Position: margintypes.Position_LONG, Leverage: sdk.NewDec(2)}
	res := e.Tx(u, &m)
	post := e.MarginSnapshot()
	*nextID++
	ms := MStep{ID: *nextID, Kind: 1, Tag: 1, Signer: uid, Coll: e.DenomID["cusdc"], Bor: e.DenomID["ceth"], Amt: amt, Lev: new(big.Int).Set(sdk.NewDec(2).BigInt()), HealthLow: hl0, OK: res.Code == 0, Pre: pre, Post: post, StepNo: 0,
		Desc: map[string]interface{}{"tx": "margin Open", "signer": u.Addr.String(), "collateral": amt.String() + "cusdc", "borrow": "ceth", "leverage": "2", "log": trunc(res.Log, 120)}}
	if res.Code == 0 {
		for _, mt := range e.App.MarginKeeper.GetAllMTPS(e.Ctx()) {
			pp, _ := e.App.ClpKeeper.GetPool(e.Ctx(), "cusdc")
			if hv, err := e.App.MarginKeeper.UpdateMTPHealth(e.Ctx(), *mt, pp); err == nil {
				ms.NewHealth = new(big.Int).Set(hv.BigInt())
			}
		}
	}
	h.Steps = append(h.Steps, ms)
	if res.Code != 0 || len(post.MTPs) == 0 {
		return h
	}
	pre = post
	mc := margintypes.MsgClose{Signer: u.Addr.String(), Id: uint64(post.MTPs[0].ID)}
	res = e.Tx(u, &mc)
	post = e.MarginSnapshot()
	*nextID++
	h.Steps = append(h.Steps, MStep{ID: *nextID, Kind: 1, Tag: 2, Signer: uid, PID: pre.MTPs[0].ID, Addr: uid, OK: res.Code == 0, Pre: pre, Post: post, StepNo: 1,
		Desc: map[string]interface{}{"tx": "margin Close", "signer": u.Addr.String(), "id": pre.MTPs[0].ID, "log": trunc(res.Log, 120),
			"trader_cusdc_before_open": mbal(h.Steps[0].Pre, uid, e.DenomID["cusdc"]).String(), "trader_cusdc_after_close": mbal(post, uid, e.DenomID["cusdc"]).String()}})
	return h
}

// ScriptLiquidationStuck: corpus history for finding F-9. A dust position on a deep pool; a whale swap chosen so that
// the custody is worth exactly one base unit of the collateral: the liquidation in the next BeginBlock takes the
// custody out of the pool's custody total and then fails to price it (the pool it is priced against now contains it).
func ScriptLiquidationStuck(hid int, nextID *int) MHistory {
	desc := map[string]interface{}{"corpus": "F-9: liquidation fails after TakeOutCustody"}
	e := env.New(env.Opts{NUsers: 4, Tokens: []string{"ceth"}})
	w := &marginWorld{Env: e, FundFC: chain.NewAccount("fundfc"), FundInc: chain.NewAccount("fundinc"), Toks: []string{"ceth"}}
	addrs := []string{e.Admin.Addr.String(), w.FundFC.Addr.String(), w.FundInc.Addr.String()}
	for _, u := range e.Users {
		addrs = append(addrs, u.Addr.String())
	}
	e.AssignAccountIDs(addrs)
	e.BeginBlock()
	mustOK(e.UpdateRewardsParams(0, 0, 0, "", false), "rewards params")
	fee := clptypes.MsgUpdateSwapFeeParamsRequest{Signer: e.Admin.Addr.String(), DefaultSwapFeeRate: sdk.ZeroDec()}
	mustOK(e.Tx(e.Admin, &fee), "swap fee params")
	n := new(big.Int).Mul(big.NewInt(1000), chain.E(18))
	mustOK(e.CreatePool(e.Users[0], "ceth", n, n), "create pool")
	ps := *margintypes.DefaultGenesis().Params
	ps.ForceCloseFundAddress, ps.IncrementalInterestPaymentFundAddress = w.FundFC.Addr.String(), w.FundInc.Addr.String()
	ps.IncrementalInterestPaymentEnabled = false
	mustOK(e.Tx(e.Admin, &margintypes.MsgUpdateParams{Signer: e.Admin.Addr.String(), Params: &ps}), "margin params")
	mustOK(e.Tx(e.Admin, &margintypes.MsgUpdatePools{Signer: e.Admin.Addr.String(), Pools: []string{"ceth"}}), "margin pools")
	h := MHistory{ID: hid, Env: e, Desc: desc}
	e.NextBlock()
	e.NextBlock()
	u := e.Users[2]
	uid := e.AcctID[u.Addr.String()]
	rec := func(st MStep) {
		*nextID++
		st.ID = *nextID
		h.Steps = append(h.Steps, st)
	}
	// a dust position: 1000 base units of rowan, leverage 2
	amt := big.NewInt(1000)
	pre := e.MarginSnapshot()
	cp0, _ := e.App.ClpKeeper.GetPool(e.Ctx(), "ceth")
	hl0 := !cp0.Health.IsNil() && cp0.Health.LTE(e.App.MarginKeeper.GetPoolOpenThreshold(e.Ctx()))
	m := margintypes.MsgOpen{Signer: u.Addr.String(), CollateralAsset: "rowan", CollateralAmount: env.U(amt), BorrowAsset: "ceth", Position: margintypes.Position_LONG, Leverage: sdk.NewDec(2)}
	res := e.Tx(u, &m)
	post := e.MarginSnapshot()
	ms := MStep{Kind: 1, Tag: 1, Signer: uid, Coll: 0, Bor: e.DenomID["ceth"], Amt: amt, Lev: new(big.Int).Set(sdk.NewDec(2).BigInt()), HealthLow: hl0, OK: res.Code == 0, Pre: pre, Post: post, StepNo: 0,
		Desc: map[string]interface{}{"tx": "margin Open", "signer": u.Addr.String(), "collateral": "1000rowan", "borrow": "ceth", "leverage": "2", "log": trunc(res.Log, 120)}}
	if res.Code == 0 && len(post.MTPs) == 1 {
		mt := e.App.MarginKeeper.GetAllMTPS(e.Ctx())[0]
		pp, _ := e.App.ClpKeeper.GetPool(e.Ctx(), "ceth")
		if hv, err := e.App.MarginKeeper.UpdateMTPHealth(e.Ctx(), *mt, pp); err == nil {
			ms.NewHealth = new(big.Int).Set(hv.BigInt())
		}
	}
	rec(ms)
	if res.Code != 0 || len(post.MTPs) != 1 {
		return h
	}
	// the whale swap: x ceth -> rowan such that c <= c*Y(x) - X(x) < 2c with X = eb + x, Y = nb - out(x) + nl (fee 0, no ratio shifting)
	p := mpoolOf(post, e.DenomID["ceth"])
	c := post.MTPs[0].CustAmt
	f := func(x *big.Int) *big.Int { // c*Y - X after the swap
		out := new(big.Int).Div(mulBig(x, new(big.Int).Add(p.NB, p.NL)), new(big.Int).Add(new(big.Int).Add(p.EB, p.EL), x))
		Y := new(big.Int).Add(new(big.Int).Sub(p.NB, out), p.NL)
		X := new(big.Int).Add(new(big.Int).Add(p.EB, p.EL), x)
		return new(big.Int).Sub(mulBig(c, Y), X)
	}
	lo, hi := big.NewInt(1), new(big.Int).Mul(p.EB, big.NewInt(1000000))
	for i := 0; i < 400 && new(big.Int).Sub(hi, lo).Cmp(big.NewInt(1)) > 0; i++ { // f is decreasing: find the largest x with f(x) >= c
		mid := new(big.Int).Rsh(new(big.Int).Add(lo, hi), 1)
		if f(mid).Cmp(c) >= 0 {
			lo = mid
		} else {
			hi = mid
		}
	}
	x := lo
	desc["whale_swap_ceth"], desc["custody"] = x.String(), c.String()
	pre = e.MarginSnapshot()
	r2 := e.Swap(e.Users[3], "ceth", "rowan", x, big.NewInt(0))
	rec(MStep{Kind: 2, OK: r2.Code == 0, Pre: pre, Post: e.MarginSnapshot(), StepNo: 1, Desc: map[string]interface{}{"tx": "clp Swap", "from": "ceth", "to": "rowan", "amount": x.String(), "log": trunc(r2.Log, 100)}})
	// next block: the liquidation
	e.EndBlock()
	e.Commit()
	pre = e.MarginSnapshot()
	panicked := e.BeginBlock()
	post = e.MarginSnapshot()
	pre.Height = post.Height
	var rates [][3]*big.Int
	for _, pp := range pre.Pools {
		q := mpoolOf(post, pp.Asset)
		rates = append(rates, [3]*big.Int{q.Rate, q.RN, q.RD})
	}
	rec(MStep{Kind: 3, Rates: rates, OK: !panicked, Pre: pre, Post: post, StepNo: 2, Desc: map[string]interface{}{"hook": "BeginBlock"}})
	return h
}

// ScriptEmptySide: corpus history for finding F-7. A margin-enabled pool whose native side is emptied by a provider-distribution
// period with block rate 1 (an accepted policy setting); the margin begin blocker must skip the pool, not divide by its balance.
func ScriptEmptySide(hid int, nextID *int) MHistory {
	desc := map[string]interface{}{"corpus": "F-7: margin begin blocker on a pool with an empty side"}
	e := env.New(env.Opts{NUsers: 4, Tokens: []string{"ceth"}})
	w := &marginWorld{Env: e, FundFC: chain.NewAccount("fundfc"), FundInc: chain.NewAccount("fundinc"), Toks: []string{"ceth"}}
	addrs := []string{e.Admin.Addr.String(), w.FundFC.Addr.String(), w.FundInc.Addr.String()}
	for _, u := range e.Users {
		addrs = append(addrs, u.Addr.String())
	}
	e.AssignAccountIDs(addrs)
	e.BeginBlock()
	mustOK(e.UpdateRewardsParams(0, 0, 0, "", false), "rewards params")
	n := new(big.Int).Mul(big.NewInt(1000), chain.E(18))
	mustOK(e.CreatePool(e.Users[0], "ceth", n, n), "create pool")
	ps := *margintypes.DefaultGenesis().Params
	ps.ForceCloseFundAddress, ps.IncrementalInterestPaymentFundAddress = w.FundFC.Addr.String(), w.FundInc.Addr.String()
	ps.EpochLength = 1
	mustOK(e.Tx(e.Admin, &margintypes.MsgUpdateParams{Signer: e.Admin.Addr.String(), Params: &ps}), "margin params")
	mustOK(e.Tx(e.Admin, &margintypes.MsgUpdatePools{Signer: e.Admin.Addr.String(), Pools: []string{"ceth"}}), "margin pools")
	h := MHistory{ID: hid, Env: e, Desc: desc}
	rec := func(st MStep) {
		*nextID++
		st.ID = *nextID
		h.Steps = append(h.Steps, st)
	}
	lp := &clptypes.ProviderDistributionPeriod{DistributionPeriodStartBlock: uint64(e.Height + 1), DistributionPeriodEndBlock: uint64(e.Height + 3), DistributionPeriodBlockRate: sdk.OneDec(), DistributionPeriodMod: 1}
	mustOK(e.Tx(e.Admin, &clptypes.MsgAddProviderDistributionPeriodRequest{Signer: e.Admin.Addr.String(), DistributionPeriods: []*clptypes.ProviderDistributionPeriod{lp}}), "provider distribution period")
	for b := 0; b < 5; b++ {
		if e.EndBlock() {
			break
		}
		e.Commit()
		pre := e.MarginSnapshot()
		panicked := e.BeginBlock()
		post := e.MarginSnapshot()
		pre.Height = post.Height
		var rates [][3]*big.Int
		for _, pp := range pre.Pools {
			q := mpoolOf(post, pp.Asset)
			if q == nil {
				q = &pp
			}
			rates = append(rates, [3]*big.Int{q.Rate, q.RN, q.RD})
		}
		rec(MStep{Kind: 3, Rates: rates, OK: !panicked, Pre: pre, Post: post, StepNo: b, Desc: map[string]interface{}{"hook": "BeginBlock", "native_side": mpoolOf(pre, e.DenomID["ceth"]).NB.String()}})
		if panicked {
			break
		}
	}
	return h
}

// ScriptLiquidationSurplus: corpus history — positions that are force-closed while they are still worth more than they
// owe, with a force-close fund percentage of 10 %: the owner gets the surplus less the fund's cut, the fund gets the cut,
// and the pool must be debited by both. One position per collateral direction is liquidated by the begin blocker (after
// the administrator raised the safety factor above the positions' health), a third one by AdminClose with the fund payment.
func ScriptLiquidationSurplus(hid int, nextID *int) MHistory {
	desc := map[string]interface{}{"corpus": "liquidation with surplus and a force-close fund cut, both collateral directions"}
	e := env.New(env.Opts{NUsers: 4, Tokens: []string{"ceth"}})
	w := &marginWorld{Env: e, FundFC: chain.NewAccount("fundfc"), FundInc: chain.NewAccount("fundinc"), Toks: []string{"ceth"}}
	addrs := []string{e.Admin.Addr.String(), w.FundFC.Addr.String(), w.FundInc.Addr.String()}
	for _, u := range e.Users {
		addrs = append(addrs, u.Addr.String())
	}
	e.AssignAccountIDs(addrs)
	e.BeginBlock()
	mustOK(e.UpdateRewardsParams(0, 0, 0, "", false), "rewards params")
	n := new(big.Int).Mul(big.NewInt(1000000), chain.E(18))
	mustOK(e.CreatePool(e.Users[0], "ceth", n, n), "create pool")
	ps := *margintypes.DefaultGenesis().Params
	ps.ForceCloseFundAddress, ps.IncrementalInterestPaymentFundAddress = w.FundFC.Addr.String(), w.FundInc.Addr.String()
	ps.ForceCloseFundPercentage = sdk.NewDecWithPrec(1, 1)
	ps.EpochLength = 1
	ps.RowanCollateralEnabled = true
	mustOK(e.Tx(e.Admin, &margintypes.MsgUpdateParams{Signer: e.Admin.Addr.String(), Params: &ps}), "margin params")
	mustOK(e.Tx(e.Admin, &margintypes.MsgUpdatePools{Signer: e.Admin.Addr.String(), Pools: []string{"ceth"}}), "margin pools")
	h := MHistory{ID: hid, Env: e, Desc: desc}
	e.NextBlock()
	stepNo := 0
	rec := func(st MStep) {
		*nextID++
		st.ID = *nextID
		st.StepNo = stepNo
		stepNo++
		h.Steps = append(h.Steps, st)
	}
	open := func(u chain.Account, coll, bor string) bool {
		uid := e.AcctID[u.Addr.String()]
		amt := new(big.Int).Mul(big.NewInt(1000), chain.E(18))
		pre := e.MarginSnapshot()
		cp0, _ := e.App.ClpKeeper.GetPool(e.Ctx(), "ceth")
		hl0 := !cp0.Health.IsNil() && cp0.Health.LTE(e.App.MarginKeeper.GetPoolOpenThreshold(e.Ctx()))
		m := margintypes.MsgOpen{Signer: u.Addr.String(), CollateralAsset: coll, CollateralAmount: env.U(amt), BorrowAsset: bor, Position: margintypes.Position_LONG, Leverage: sdk.NewDec(2)}
		res := e.Tx(u, &m)
		post := e.MarginSnapshot()
		ms := MStep{Kind: 1, Tag: 1, Signer: uid, Coll: e.DenomID[coll], Bor: e.DenomID[bor], Amt: amt, Lev: new(big.Int).Set(sdk.NewDec(2).BigInt()), HealthLow: hl0, OK: res.Code == 0, Pre: pre, Post: post,
			Desc: map[string]interface{}{"tx": "margin Open", "signer": u.Addr.String(), "collateral": amt.String() + coll, "borrow": bor, "leverage": "2", "log": trunc(res.Log, 120)}}
		if res.Code == 0 {
			for _, mt := range e.App.MarginKeeper.GetAllMTPS(e.Ctx()) {
				if mt.Address == u.Addr.String() && mtpIn(pre, uid, int64(mt.Id)) == nil {
					pp, _ := e.App.ClpKeeper.GetPool(e.Ctx(), "ceth")
					if hv, err := e.App.MarginKeeper.UpdateMTPHealth(e.Ctx(), *mt, pp); err == nil {
						ms.NewHealth = new(big.Int).Set(hv.BigInt())
					}
				}
			}
		}
		rec(ms)
		return res.Code == 0
	}
	block := func() bool {
		if e.EndBlock() {
			return false
		}
		e.Commit()
		pre := e.MarginSnapshot()
		panicked := e.BeginBlock()
		post := e.MarginSnapshot()
		pre.Height = post.Height
		var rates [][3]*big.Int
		for _, pp := range pre.Pools {
			q := mpoolOf(post, pp.Asset)
			if q == nil {
				q = &pp
			}
			rates = append(rates, [3]*big.Int{q.Rate, q.RN, q.RD})
		}
		rec(MStep{Kind: 3, Rates: rates, OK: !panicked, Pre: pre, Post: post, Desc: map[string]interface{}{"hook": "BeginBlock", "positions_before": len(pre.MTPs), "positions_after": len(post.MTPs)}})
		return !panicked
	}
	if !open(e.Users[1], "rowan", "ceth") || !open(e.Users[2], "ceth", "rowan") || !open(e.Users[3], "rowan", "ceth") {
		return h
	}
	// AdminClose with the fund payment: a healthy position, so there is a surplus
	pre := e.MarginSnapshot()
	var third env.MTP
	for _, m := range pre.MTPs {
		if m.Addr == e.AcctID[e.Users[3].Addr.String()] {
			third = m
		}
	}
	ac := margintypes.MsgAdminClose{Signer: e.Admin.Addr.String(), MtpAddress: e.Users[3].Addr.String(), Id: uint64(third.ID), TakeMarginFund: true}
	res := e.Tx(e.Admin, &ac)
	rec(MStep{Kind: 1, Tag: 3, Signer: e.AcctID[e.Admin.Addr.String()], Addr: third.Addr, PID: third.ID, IsAdmin: true, TakeFund: true, OK: res.Code == 0, Pre: pre, Post: e.MarginSnapshot(),
		Desc: map[string]interface{}{"tx": "margin AdminClose", "signer": e.Admin.Addr.String(), "owner": e.Users[3].Addr.String(), "id": third.ID, "take_fund": true, "log": trunc(res.Log, 120)}})
	if !block() {
		return h
	}
	// the administrator raises the safety factor above the health of the open positions (about 2)
	pre = e.MarginSnapshot()
	ps.SafetyFactor = sdk.NewDec(5)
	r3 := e.Tx(e.Admin, &margintypes.MsgUpdateParams{Signer: e.Admin.Addr.String(), Params: &ps})
	rec(MStep{Kind: 2, OK: r3.Code == 0, Pre: pre, Post: e.MarginSnapshot(), Desc: map[string]interface{}{"tx": "margin UpdateParams", "safety_factor": "5", "force_close_fund_percentage": "0.1"}})
	block()
	block()
	return h
}

// MonMargin — the clauses of C13 on every observed state / transition.
func MonMargin(rep *report.Report, h MHistory) {
	e := h.Env
	fundFC, fundInc := int64(-1), int64(-1)
	for _, s := range h.Steps {
		fundFC, fundInc = s.Post.Params.FcFund, s.Post.Params.IncrFund
		// (1) pool totals = sums over the open positions; counter = number of stored positions
		type sums struct{ nc, ec, nl, el *big.Int }
		sm := map[int64]*sums{}
		get := func(a int64) *sums {
			if sm[a] == nil {
				sm[a] = &sums{new(big.Int), new(big.Int), new(big.Int), new(big.Int)}
			}
			return sm[a]
		}
		for _, m := range s.Post.MTPs {
			if m.CollAsset == 0 {
				x := get(m.CustAsset)
				x.ec.Add(x.ec, m.CustAmt)
				x.nl.Add(x.nl, m.Liab)
			} else {
				x := get(m.CollAsset)
				x.nc.Add(x.nc, m.CustAmt)
				x.el.Add(x.el, m.Liab)
			}
		}
		kind := "tx"
		if s.Kind == 3 {
			kind = "BeginBlock"
		} else if s.Kind == 1 {
			kind = []string{"", "Open", "Close", "AdminClose"}[s.Tag]
		}
		for _, p := range s.Post.Pools {
			x := get(p.Asset)
			if p.NC.Cmp(x.nc) != 0 || p.EC.Cmp(x.ec) != 0 {
				rep.Violate("C13/custody-mismatch/"+kind, fmt.Sprintf("pool %d custody (%s,%s), positions hold (%s,%s)", p.Asset, p.NC, p.EC, x.nc, x.ec), h.replay(s.StepNo))
			}
			if p.NL.Cmp(x.nl) != 0 || p.EL.Cmp(x.el) != 0 {
				rep.Violate("C13/liabilities-mismatch/"+kind, fmt.Sprintf("pool %d liabilities (%s,%s), positions owe (%s,%s)", p.Asset, p.NL, p.EL, x.nl, x.el), h.replay(s.StepNo))
			}
		}
		if s.Post.Open != uint64(len(s.Post.MTPs)) {
			rep.Violate("C13/open-counter/"+kind, fmt.Sprintf("open-position counter %d, stored positions %d", s.Post.Open, len(s.Post.MTPs)), h.replay(s.StepNo))
		}
		nd := int64(len(e.DenomID))
		delta := func(acct, d int64) *big.Int { return new(big.Int).Sub(mbal(s.Post, acct, d), mbal(s.Pre, acct, d)) }
		if s.Kind != 1 && s.Kind != 3 {
			continue
		}
		// each fund is paid for its own purpose only: with incremental interest payments switched off the interest fund
		// receives nothing (a liquidation's cut goes to the force-close fund), and without a liquidation or an
		// administrator's close with the fund payment the force-close fund receives nothing
		if s.Pre.Params.IncrFund != s.Pre.Params.FcFund && s.Pre.Params.IncrFund == s.Post.Params.IncrFund && s.Pre.Params.FcFund == s.Post.Params.FcFund {
			fcDue := s.Kind == 3 || (s.Kind == 1 && s.Tag == 3 && s.TakeFund)
			for d := int64(0); d < nd; d++ {
				if !s.Pre.Params.Incr && delta(s.Pre.Params.IncrFund, d).Sign() != 0 && s.Pre.Params.IncrFund != s.Signer {
					rep.Violate("C13/fund/interest-fund-paid-without-interest-payments/"+kind, fmt.Sprintf("incremental interest payments are off, yet the interest fund's balance of denom %d moved by %s", d, delta(s.Pre.Params.IncrFund, d)), h.replay(s.StepNo))
				}
				if !fcDue && delta(s.Pre.Params.FcFund, d).Sign() != 0 && s.Pre.Params.FcFund != s.Signer {
					rep.Violate("C13/fund/force-close-fund-paid-without-forced-close/"+kind, fmt.Sprintf("no forced close in this step, yet the force-close fund's balance of denom %d moved by %s", d, delta(s.Pre.Params.FcFund, d)), h.replay(s.StepNo))
				}
			}
		}
		// positions that disappeared / appeared
		var gone, born []env.MTP
		for _, m := range s.Pre.MTPs {
			if mtpIn(s.Post, m.Addr, m.ID) == nil {
				gone = append(gone, m)
			}
		}
		for _, m := range s.Post.MTPs {
			if mtpIn(s.Pre, m.Addr, m.ID) == nil {
				born = append(born, m)
			}
		}
		fee := big.NewInt(0)
		if s.Kind == 1 {
			fee = chain.E(18)
		}
		switch {
		case s.Kind == 1 && s.Tag == 1 && s.OK:
			// (2) opening takes exactly the stated collateral from the trader
			for id := range e.AcctOf {
				for d := int64(0); d < nd; d++ {
					want := new(big.Int)
					if id == s.Signer && d == s.Coll {
						want.Neg(s.Amt)
					}
					if id == env.ClpModuleID && d == s.Coll {
						want.Set(s.Amt)
					}
					if id == s.Signer && d == 0 {
						want.Sub(want, fee)
					}
					if delta(id, d).Cmp(want) != 0 {
						rep.Violate("C13/open/balance", fmt.Sprintf("account %d denom %d moved by %s, expected %s", id, d, delta(id, d), want), h.replay(s.StepNo))
					}
				}
			}
			if len(born) != 1 || len(gone) != 0 || born[0].Addr != s.Signer || born[0].CollAmt.Cmp(s.Amt) != 0 {
				rep.Violate("C13/open/position", fmt.Sprintf("an accepted Open created %d and removed %d positions", len(born), len(gone)), h.replay(s.StepNo))
			}
			// (4) health of the new position exceeds the safety factor
			if s.NewHealth == nil || s.NewHealth.Cmp(s.Post.Params.Safety) <= 0 {
				rep.Violate("C13/open/unhealthy", fmt.Sprintf("position opened with health %v, safety factor %s", s.NewHealth, s.Post.Params.Safety), h.replay(s.StepNo))
			}
		case s.Kind == 1 && !s.OK:
			// a refused transaction changes nothing but the fee
			if len(born)+len(gone) != 0 {
				rep.Violate("C13/failed-tx-changed-positions", "a refused transaction changed the set of positions", h.replay(s.StepNo))
			}
			for id := range e.AcctOf {
				for d := int64(0); d < nd; d++ {
					want := new(big.Int)
					if id == s.Signer && d == 0 {
						want.Neg(fee)
					}
					if delta(id, d).Cmp(want) != 0 {
						rep.Violate("C13/failed-tx-moved-coins", fmt.Sprintf("account %d denom %d moved by %s", id, d, delta(id, d)), h.replay(s.StepNo))
					}
				}
			}
		default:
			// (3) closing, liquidation, interest: value moves only between the positions' owners, the pool (module account) and the fund addresses
			owners := map[int64]bool{}
			for _, m := range gone {
				owners[m.Addr] = true
			}
			if s.Kind == 3 { // interest payments of surviving positions go to the pool and the fund only
			}
			for id := range e.AcctOf {
				for d := int64(0); d < nd; d++ {
					dl := delta(id, d)
					if id == s.Signer && d == 0 && s.Kind == 1 {
						dl = new(big.Int).Add(dl, fee)
					}
					if dl.Sign() == 0 {
						continue
					}
					if id == env.ClpModuleID || id == fundFC || id == fundInc || id == s.Pre.Params.FcFund || id == s.Pre.Params.IncrFund {
						continue
					}
					if owners[id] && dl.Sign() > 0 {
						continue
					}
					rep.Violate("C13/close/foreign-balance/"+kind, fmt.Sprintf("account %d denom %d moved by %s", id, d, dl), h.replay(s.StepNo))
				}
			}
			// coins are conserved over the tracked accounts
			for d := int64(0); d < nd; d++ {
				tot := new(big.Int)
				for id := range e.AcctOf {
					tot.Add(tot, delta(id, d))
				}
				if d == 0 && s.Kind == 1 {
					tot.Add(tot, fee)
				}
				if s.Kind == 3 && d == 0 {
					continue // inflation / dispensation mint in BeginBlock
				}
				if tot.Sign() != 0 {
					rep.Violate("C13/close/not-conserved/"+kind, fmt.Sprintf("denom %d: tracked accounts changed by %s in total", d, tot), h.replay(s.StepNo))
				}
			}
			if s.Kind == 1 && s.OK {
				if len(gone) != 1 || len(born) != 0 {
					rep.Violate("C13/close/position", fmt.Sprintf("an accepted close removed %d and created %d positions", len(gone), len(born)), h.replay(s.StepNo))
				} else if s.Tag == 2 && gone[0].Addr != s.Signer {
					rep.Violate("C13/close/not-owner", "a Close by somebody else removed a position", h.replay(s.StepNo))
				} else if s.Tag == 3 && !s.IsAdmin {
					rep.Violate("C13/close/not-admin", "an AdminClose by a non-administrator removed a position", h.replay(s.StepNo))
				}
			}
			if s.Kind == 3 && len(born) != 0 {
				rep.Violate("C13/begin-block/new-position", "BeginBlock created a position", h.replay(s.StepNo))
			}
			if s.Kind == 3 && len(gone) > 0 {
				el := s.Pre.Params.EpochLen
				if el <= 0 {
					el = 1
				}
				if s.Pre.Height%el != 0 {
					rep.Violate("C13/begin-block/liquidation-off-epoch", "a position was force-closed outside an epoch boundary", h.replay(s.StepNo))
				}
			}
		}
	}
}

func writeMarginFiles(c Ctx, rep *report.Report, prefix string, hs []MHistory, per int) {
	var all []MStep
	for _, h := range hs {
		for _, s := range h.Steps {
			if s.Kind == 1 || s.Kind == 3 {
				all = append(all, s)
				rep.CaseIndex[fmt.Sprint(s.ID)] = h.replay(s.StepNo)
			}
		}
	}
	for s := 0; s*per < len(all); s++ {
		end := (s + 1) * per
		if end > len(all) {
			end = len(all)
		}
		var items []string
		for _, st := range all[s*per : end] {
			items = append(items, st.Enc())
		}
		writeCases(c, rep, fmt.Sprintf("%s_%d.v", prefix, s), "From Sif Require Import Check.Margin.\n",
			fmt.Sprintf("Definition cases : list (list int) := %s.\nDefinition M := Eval vm_compute in (margin_mismatches cases).\n", coqList(items)))
	}
}

// C13 — margin positions agree with pool totals; liquidation only when unhealthy.
func C13(c Ctx) *report.Report {
	rep := report.New("C13", c.Seed, c.Tier)
	rng := chain.NewRng(c.Seed + 13)
	next := 0
	hs := []MHistory{ScriptExtExt(9017, &next), ScriptLiquidationStuck(9009, &next), ScriptEmptySide(9007, &next), ScriptLiquidationSurplus(9021, &next)}
	hs = append(hs, RunMarginHistories(c, rep, rng, c.N(30, 800), 45, &next)...)
	nontrivial := 0
	for _, h := range hs {
		MonMargin(rep, h)
		for _, s := range h.Steps {
			if s.OK && (s.Kind == 1 || (s.Kind == 3 && len(s.Pre.MTPs) > 0)) {
				nontrivial++
			}
		}
		if len(rep.Samples) < 2 && len(h.Steps) > 6 {
			rep.Sample(h.replay(6))
		}
	}
	rep.Evaluations = next
	rep.DistinctNontrivial = nontrivial
	rep.Rule = "one case = one observed transition (margin Open / Close / AdminClose transaction, or the BeginBlock of the next block) of the real app inside generated histories: 1-2 margin-enabled pools, 4 traders, " +
		"both collateral directions, leverage 1..12 against a maximum of 2..10, collateral from dust to a quarter of the pool, closes by the owner / by somebody else / by the administrator / by a non-administrator with and without fund payment, " +
		"swaps of 1/60..4x of the pool depth and liquidity changes that move the price, parameter changes (safety factor 1.00..1.59, interest rates, fund percentages 0..25%, epoch length 1..4, incremental interest on/off) in the middle of histories; " +
		"non-trivial = accepted margin transaction or BeginBlock with open positions"
	_ = clptypes.ModuleName
	writeMarginFiles(c, rep, "cases_C13", hs, 300)
	var clpHs []History
	for _, h := range hs {
		if len(h.ClpSteps) > 0 {
			clpHs = append(clpHs, History{ID: h.ID, Env: h.Env, Steps: h.ClpSteps, Desc: h.Desc})
		}
	}
	writeHistFiles(c, rep, "cases_C13_clp", clpHs, 450)
	return rep
}
