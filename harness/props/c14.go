package props

import (
	"encoding/json"
	"fmt"
	"math/big"
	"reflect"
	"sort"
	"strings"

	clptypes "github.com/Sifchain/sifnode/x/clp/types"
	disptypes "github.com/Sifchain/sifnode/x/dispensation/types"
	margintypes "github.com/Sifchain/sifnode/x/margin/types"
	tokenregistrytypes "github.com/Sifchain/sifnode/x/tokenregistry/types"
	sdk "github.com/cosmos/cosmos-sdk/types"

	"sifverif/chain"
	"sifverif/env"
	"sifverif/report"
)

// the Sifchain modules whose genesis format the property speaks about
var sifModules = []string{"admin", "clp", "dispensation", "epochs", "ethbridge", "margin", "oracle", "tokenregistry"}

// jsonDiff returns the paths at which two decoded JSON values differ (at most max).
func jsonDiff(path string, a, b interface{}, out *[]string, max int) {
	if len(*out) >= max {
		return
	}
	switch x := a.(type) {
	case map[string]interface{}:
		y, ok := b.(map[string]interface{})
		if !ok {
			*out = append(*out, path+": object vs "+fmt.Sprintf("%T", b))
			return
		}
		keys := map[string]bool{}
		for k := range x {
			keys[k] = true
		}
		for k := range y {
			keys[k] = true
		}
		var ks []string
		for k := range keys {
			ks = append(ks, k)
		}
		sort.Strings(ks)
		for _, k := range ks {
			jsonDiff(path+"."+k, x[k], y[k], out, max)
		}
	case []interface{}:
		y, ok := b.([]interface{})
		if !ok {
			if len(x) == 0 && b == nil {
				return // [] and null are the same (empty) collection
			}
			*out = append(*out, path+": array vs "+fmt.Sprintf("%T", b))
			return
		}
		if len(x) != len(y) {
			*out = append(*out, fmt.Sprintf("%s: %d entries vs %d", path, len(x), len(y)))
			return
		}
		for i := range x {
			jsonDiff(fmt.Sprintf("%s[%d]", path, i), x[i], y[i], out, max)
		}
	default:
		if a == nil {
			if y, ok := b.([]interface{}); ok && len(y) == 0 {
				return
			}
		}
		if !reflect.DeepEqual(a, b) {
			*out = append(*out, fmt.Sprintf("%s: %v vs %v", path, trunc(fmt.Sprint(a), 60), trunc(fmt.Sprint(b), 60)))
		}
	}
}

// canonModule decodes one module's genesis JSON and removes what the property exempts.
func canonModule(name string, raw json.RawMessage) interface{} {
	var v interface{}
	if err := json.Unmarshal(raw, &v); err != nil {
		panic(err)
	}
	if name == "epochs" {
		// the epochs module re-bases the start height of the running epoch to the new chain's initial height
		if m, ok := v.(map[string]interface{}); ok {
			if eps, ok := m["epochs"].([]interface{}); ok {
				for _, e := range eps {
					if em, ok := e.(map[string]interface{}); ok {
						delete(em, "current_epoch_start_height")
					}
				}
			}
		}
	}
	return v
}

type rtResult struct {
	Chain2  *chain.Chain
	Diffs   map[string][]string // module -> differing paths (export vs re-export)
	InitErr error
	Gen1    map[string]json.RawMessage
}

// roundTrip exports the chain, initialises a fresh app from the export and exports again.
func roundTrip(c *chain.Chain) rtResult {
	st1, h, err := c.Export()
	if err != nil {
		return rtResult{InitErr: fmt.Errorf("export: %v", err)}
	}
	var g1 map[string]json.RawMessage
	if err := json.Unmarshal(st1, &g1); err != nil {
		panic(err)
	}
	c2, err := chain.NewFromExport(st1, h, c.Time)
	if err != nil {
		return rtResult{InitErr: err, Gen1: g1}
	}
	st2, _, err := c2.Export()
	if err != nil {
		return rtResult{InitErr: fmt.Errorf("second export: %v", err), Gen1: g1}
	}
	var g2 map[string]json.RawMessage
	if err := json.Unmarshal(st2, &g2); err != nil {
		panic(err)
	}
	res := rtResult{Chain2: c2, Diffs: map[string][]string{}, Gen1: g1}
	for _, m := range sifModules {
		var d []string
		jsonDiff(m, canonModule(m, g1[m]), canonModule(m, g2[m]), &d, 5)
		if len(d) > 0 {
			res.Diffs[m] = d
		}
	}
	return res
}

// settle closes the open block so that the state read by the harness is the committed state that gets exported.
func settle(c *chain.Chain) {
	if c.InBlock {
		c.EndBlock()
		c.Commit()
	}
}

func reportRT(rep *report.Report, kind string, r rtResult, replay interface{}) {
	if r.InitErr != nil {
		rep.Violate("C14/import-fails/"+kind, trunc(r.InitErr.Error(), 200), replay)
		return
	}
	var mods []string
	for m := range r.Diffs {
		mods = append(mods, m)
	}
	sort.Strings(mods)
	for _, m := range mods {
		rep.Violate("C14/re-export-differs/"+m, strings.Join(r.Diffs[m], "; "), replay)
	}
}

// C14 — genesis export/import is lossless for everything the genesis format carries.
func C14(c Ctx) *report.Report {
	rep := report.New("C14", c.Seed, c.Tier)
	rng := chain.NewRng(c.Seed + 14)
	next := 0
	n := 0
	var cases []string
	// (1) AMM states: pools, providers with unlock requests, reward buckets, reward / distribution periods, fees, rates
	o := clpOpts(c, c.N(14, 200), 0)
	o.Histories = c.N(14, 200)
	o.Steps = 24
	o.LockChanges = true
	for hi, h := range RunClpHistories(c, rep, rng, o, &next) {
		e := h.Env
		if hi%3 == 1 {
			// a ratio-shifting policy is under way when the state is exported: the running rate has moved away from the
			// inter-policy rate, the epoch and block counters are in the middle of the period
			settle(e.Chain)
			e.BeginBlock()
			m := &clptypes.MsgUpdatePmtpParams{Signer: e.Admin.Addr.String(), PmtpPeriodGovernanceRate: "0.1", PmtpPeriodEpochLength: 2, PmtpPeriodStartBlock: e.Height + 1, PmtpPeriodEndBlock: e.Height + 8}
			if e.Tx(e.Admin, m).Code == 0 {
				for b := 0; b < 3+rng.Intn(3); b++ {
					e.NextBlock()
				}
				rep.Count("roundtrip.clp.policy-under-way")
			}
		}
		settle(e.Chain)
		s1 := e.Snapshot()
		p1 := polSnapshot(e, 0)
		r := roundTrip(e.Chain)
		reportRT(rep, "clp", r, replayOf(h, len(h.Steps)))
		if r.Chain2 != nil {
			e2 := *e
			e2.Chain = r.Chain2
			s2 := e2.Snapshot()
			cases = append(cases, clpGenCase(len(cases), e, r.Chain2.Height, s1, p1, r.Gen1["clp"], s2, polSnapshot(&e2, 0)))
			rep.CaseIndex[fmt.Sprint(len(cases)-1)] = replayOf(h, len(h.Steps))
			s2.Height = s1.Height
			if s2.Accu.Cmp(s1.Accu) != 0 {
				// the block-distribution accumulator (clp store key 0x0d) is not part of the genesis format
				rep.Count("not-carried.clp-block-distribution-accumulator")
				s2.Accu = s1.Accu
			}
			if a, b := (&env.Enc{}).Clp(s1).Coq(), (&env.Enc{}).Clp(s2).Coq(); a != b {
				j1, _ := json.Marshal(s1)
				j2, _ := json.Marshal(s2)
				var v1, v2 interface{}
				_ = json.Unmarshal(j1, &v1)
				_ = json.Unmarshal(j2, &v2)
				var d []string
				jsonDiff("clp-state", v1, v2, &d, 6)
				rep.Violate("C14/queries-differ/clp", "read from the re-imported chain: "+strings.Join(d, "; "), replayOf(h, len(h.Steps)))
			}
		}
		rep.Count("roundtrip.clp")
		n++
	}
	// (2) bridge states: prophecies in every status, whitelist edits, peggy tokens, blacklist, pause, receiver account
	for _, h := range RunBridgeHistories(c, rep, rng, BOpts{Histories: c.N(10, 150), Steps: 20, ClaimW: 8, LockW: 2, AdminW: 3, Pause: true}, &next) {
		e := h.Env
		settle(e.Chain)
		s1 := e.Snapshot()
		r := roundTrip(e.Chain)
		reportRT(rep, "bridge", r, h.replay(len(h.Steps)))
		if r.Chain2 != nil {
			e2 := *e
			e2.Chain = r.Chain2
			s2 := e2.Snapshot()
			if a, b := (&env.Enc{}).Bridge(s1, e.Contents).Coq(), (&env.Enc{}).Bridge(s2, e.Contents).Coq(); a != b {
				rep.Violate("C14/queries-differ/bridge", "prophecies / whitelist / peggy tokens / balances read from the re-imported chain differ", h.replay(len(h.Steps)))
			}
		}
		rep.Count("roundtrip.bridge")
		n++
	}
	// (3) dispensation states: pending / completed / failed records, distributions, claims
	for _, h := range RunDispHistories(c, rep, rng, c.N(10, 150), 24, &next) {
		w := h.W
		settle(w.Chain)
		s1 := w.snapshot()
		r := roundTrip(w.Chain)
		reportRT(rep, "dispensation", r, h.replay(len(h.Steps)))
		if r.Chain2 != nil {
			w2 := *w
			e2 := *w.Env
			e2.Chain = r.Chain2
			w2.Env = &e2
			s2 := w2.snapshot()
			s2.Height = s1.Height
			cases = append(cases, dispGenCase(len(cases), h, s1, r.Gen1["dispensation"], s2))
			rep.CaseIndex[fmt.Sprint(len(cases)-1)] = h.replay(len(h.Steps))
			ids := h.ids()
			a, b := &env.Enc{}, &env.Enc{}
			ids.state(a, w, s1)
			ids.state(b, w, s2)
			if a.Coq() != b.Coq() {
				rep.Violate("C14/queries-differ/dispensation", "records / distributions / claims / balances read from the re-imported chain differ", h.replay(len(h.Steps)))
			}
		}
		rep.Count("roundtrip.dispensation")
		n++
	}
	// (4) policy states set by accepted administrator messages (incl. registry and admin accounts of the worlds above)
	for i := 0; i < c.N(40, 600); i++ {
		e := newC10World()
		kind := rng.Intn(8)
		name, msg, fields := buildPolicyMsg(e, rng, kind)
		res := e.Tx(e.Admin, msg)
		if res.Code != 0 {
			continue
		}
		runBlocks(e, rng, rng.Intn(4), nil, rep, nil)
		if e.HookPanic != nil {
			continue
		}
		settle(e.Chain)
		pre := polSnapshot(e, 0)
		cs1 := e.Snapshot()
		r := roundTrip(e.Chain)
		reportRT(rep, "policy", r, map[string]interface{}{"message": name, "fields": fields})
		if r.Chain2 != nil {
			e2 := *e
			e2.Chain = r.Chain2
			post := polSnapshot(&e2, 0)
			cases = append(cases, clpGenCase(len(cases), e, r.Chain2.Height, cs1, pre, r.Gen1["clp"], e2.Snapshot(), post))
			rep.CaseIndex[fmt.Sprint(len(cases)-1)] = map[string]interface{}{"message": name, "fields": fields}
			a, b := &env.Enc{}, &env.Enc{}
			pre.enc(a, e)
			post.enc(b, e)
			if a.Coq() != b.Coq() {
				rep.Violate("C14/queries-differ/policy", "policy parameters read from the re-imported chain differ", map[string]interface{}{"message": name, "fields": fields})
			}
		}
		rep.Count("roundtrip.policy")
		n++
	}
	// (5) registries as MsgSetRegistry / MsgRegister / MsgDeregister leave them: any order, a denom listed more than once
	// (nothing refuses that), entries that differ only in decimals or permissions
	for i := 0; i < c.N(12, 200); i++ {
		e := env.New(env.Opts{NUsers: 2, Tokens: []string{"ceth", "cusdc"}})
		e.BeginBlock()
		denoms := []string{"rowan", "ceth", "cusdc", "cdash", "ibc/27394FB092D2ECCD56123C74F36E4C1F926001CEADA9CA97EA622B25F41E5EB2"}
		reg := &tokenregistrytypes.Registry{}
		for k := 0; k < 3+rng.Intn(5); k++ {
			en := regEntry(denoms[rng.Intn(len(denoms))], rng.Intn(8))
			en.Decimals = []int64{18, 6, 0}[rng.Intn(3)]
			reg.Entries = append(reg.Entries, en)
		}
		shape := []string{fmt.Sprintf("set-registry %d entries", len(reg.Entries))}
		if e.Tx(e.Admin, &tokenregistrytypes.MsgSetRegistry{From: e.Admin.Addr.String(), Registry: reg}).Code != 0 {
			continue
		}
		for k := 0; k < rng.Intn(3); k++ {
			d := denoms[rng.Intn(len(denoms))]
			if rng.Intn(2) == 0 {
				e.Tx(e.Admin, &tokenregistrytypes.MsgDeregister{From: e.Admin.Addr.String(), Denom: d})
				shape = append(shape, "deregister "+d)
			} else {
				e.Tx(e.Admin, &tokenregistrytypes.MsgRegister{From: e.Admin.Addr.String(), Entry: regEntry(d, rng.Intn(8))})
				shape = append(shape, "register "+d)
			}
		}
		var listed []string
		dup := false
		seenD := map[string]bool{}
		for _, en := range e.App.TokenRegistryKeeper.GetRegistry(e.Ctx()).Entries {
			listed = append(listed, fmt.Sprintf("%s/%d", en.Denom, en.Decimals))
			dup = dup || seenD[en.Denom]
			seenD[en.Denom] = true
		}
		settle(e.Chain)
		r := roundTrip(e.Chain)
		reportRT(rep, "registry", r, map[string]interface{}{"messages": shape, "registry": listed})
		rep.Count("roundtrip.registry")
		if dup {
			rep.Count("roundtrip.registry.denom-listed-twice")
		}
		n++
	}
	// (6) margin states: open positions of several owners (some closed again, so that ids have gaps), margin parameters,
	// whitelist, the pools' custody / liabilities / interest fields
	{
		mnext := 3000000
		mhs := []MHistory{scriptCounters(), scriptManyPositions()} // corpus first (finding F-19; more positions than a default page of the SDK's pagination holds)
		mhs = append(mhs, RunMarginHistories(c, rep, rng, c.N(8, 120), 30, &mnext)...)
		for _, h := range mhs {
			e := h.Env
			settle(e.Chain)
			s1 := e.MarginSnapshot()
			r := roundTrip(e.Chain)
			replay := map[string]interface{}{"margin_history": h.Desc, "steps": len(h.Steps), "positions": len(s1.MTPs), "open_count": s1.Open, "lifetime_count": s1.Count}
			reportRT(rep, "margin", r, replay)
			rep.Count("roundtrip.margin")
			if len(s1.MTPs) > 0 {
				rep.Count("roundtrip.margin.with-positions")
			}
			n++
			if r.Chain2 == nil {
				continue
			}
			e2 := *e
			e2.Chain = r.Chain2
			s2 := e2.MarginSnapshot()
			cases = append(cases, marginGenCase(len(cases), e, s1, r.Gen1["margin"], s2))
			rep.CaseIndex[fmt.Sprint(len(cases)-1)] = replay
			js := func(v interface{}) string { b, _ := json.Marshal(v); return string(b) }
			cmp := func(what string, a, b interface{}) {
				if js(a) != js(b) {
					d := map[string]interface{}{"exporting_chain": trunc(js(a), 300), "imported_chain": trunc(js(b), 300)}
					for k, v := range replay {
						d[k] = v
					}
					rep.Violate("C14/queries-differ/margin-"+what, "read from the re-imported chain: "+what+" differs", d)
				}
			}
			cmp("positions", s1.MTPs, s2.MTPs)
			cmp("open-count", s1.Open, s2.Open)
			if s1.Count != s2.Count {
				var maxID uint64
				for _, m := range s1.MTPs {
					if uint64(m.ID) > maxID {
						maxID = uint64(m.ID)
					}
				}
				d := map[string]interface{}{"exporting_chain": s1.Count, "imported_chain": s2.Count, "highest_open_id": maxID}
				for k, v := range replay {
					d[k] = v
				}
				if s2.Count == maxID {
					// the genesis format has no field for the lifetime counter: the import restores it to the highest id among the
					// open positions, so positions opened later and closed again before the export are not counted
					rep.Violate("C14/queries-differ/margin-lifetime-count/closed-after-highest-open", fmt.Sprintf("lifetime position counter %d on the exporting chain, %d on the imported one", s1.Count, s2.Count), d)
				} else {
					rep.Violate("C14/queries-differ/margin-lifetime-count", fmt.Sprintf("lifetime position counter %d on the exporting chain, %d on the imported one (highest open id %d)", s1.Count, s2.Count, maxID), d)
				}
			}
			cmp("params", s1.Params, s2.Params)
			cmp("whitelist", s1.Whitelist, s2.Whitelist)
			cmp("pools", s1.Pools, s2.Pools)
			cmp("balances", s1.Balances, s2.Balances)
			// the imported chain goes on: every owner of a position opens one more like it, then closes the old one; no stored
			// position may disappear other than the closed one, and the counters keep following the stored positions
			for mi, m := range s1.MTPs {
				if mi >= 12 {
					break // the probes of a large state: its first dozen positions
				}
				var owner chain.Account
				ok := false
				for _, u := range e2.Users {
					if e2.AcctID[u.Addr.String()] == m.Addr {
						owner, ok = u, true
					}
				}
				if !ok {
					continue
				}
				denomName := func(id int64) string {
					for d, i := range e2.DenomID {
						if i == id {
							return d
						}
					}
					return ""
				}
				coll, bor := denomName(m.CollAsset), denomName(m.CustAsset)
				amt := new(big.Int).Div(m.CollAmt, big.NewInt(2))
				if amt.Sign() == 0 {
					continue
				}
				e2.BeginBlock()
				before := e2.MarginSnapshot()
				if uint64(len(before.MTPs)) != before.Open {
					rep.Violate("C14/imported-chain/open-count-off", fmt.Sprintf("after the first block of the imported chain: %d stored positions, open counter %d", len(before.MTPs), before.Open), replay)
				}
				res := e2.Tx(owner, &margintypes.MsgOpen{Signer: owner.Addr.String(), CollateralAsset: coll, CollateralAmount: env.U(amt), BorrowAsset: bor, Position: margintypes.Position_LONG, Leverage: sdk.NewDec(2)})
				after := e2.MarginSnapshot()
				d := map[string]interface{}{"probe": "open on the imported chain by an owner of an imported position", "owner": owner.Addr.String(), "imported_position_id": m.ID, "code": res.Code, "log": trunc(res.Log, 120),
					"positions_before": len(before.MTPs), "positions_after": len(after.MTPs), "open_count_after": after.Open}
				for k, v := range replay {
					d[k] = v
				}
				rep.Count("roundtrip.margin.probe.open." + okStr(res.Code == 0))
				if res.Code == 0 && len(after.MTPs) != len(before.MTPs)+1 {
					rep.Violate("C14/imported-chain/open-overwrites-position", fmt.Sprintf("an accepted Open left %d stored positions where there were %d", len(after.MTPs), len(before.MTPs)), d)
				}
				if uint64(len(after.MTPs)) != after.Open {
					rep.Violate("C14/imported-chain/open-count-off", fmt.Sprintf("%d stored positions, open counter %d", len(after.MTPs), after.Open), d)
				}
				res = e2.Tx(owner, &margintypes.MsgClose{Signer: owner.Addr.String(), Id: uint64(m.ID)})
				closed := e2.MarginSnapshot()
				rep.Count("roundtrip.margin.probe.close." + okStr(res.Code == 0))
				if uint64(len(closed.MTPs)) != closed.Open {
					d["close_code"] = res.Code
					rep.Violate("C14/imported-chain/open-count-off", fmt.Sprintf("after a Close: %d stored positions, open counter %d", len(closed.MTPs), closed.Open), d)
				}
				e2.EndBlock()
				e2.Commit()
				break
			}
		}
	}
	// (7) administrator-set state of every module: a random subset of the 30 privileged messages (payloads of the C08 matrix)
	// delivered by a holder of the role, then export -> import -> export and the keepers' readers on both chains
	for i := 0; i < c.N(10, 150); i++ {
		w := newC08World()
		w.prepare()
		var sent []string
		for _, m := range c14PrivMethods {
			if i > 0 && rng.Intn(2) == 0 { // the first world gets all of them (corpus of findings F-21 and F-22)
				continue
			}
			signers := []chain.Account{w.Admin}
			for _, r := range []string{"ORACLE_ADMIN", "CLP_WHITELIST", "ADMIN", "CLPDEX", "PMTPREWARDS", "TOKENREGISTRY", "ETHBRIDGE", "MARGIN"} {
				signers = append(signers, w.holder[r])
			}
			for _, sg := range signers {
				if w.Tx(sg, w.build(m, sg)).Code == 0 {
					sent = append(sent, m)
					break
				}
			}
		}
		settle(w.Chain)
		rd1 := stateReaders(w.Chain)
		r := roundTrip(w.Chain)
		replay := map[string]interface{}{"accepted_privileged_messages": sent}
		reportRT(rep, "admin-state", r, replay)
		rep.Count("roundtrip.admin-state")
		n++
		if r.Chain2 == nil {
			continue
		}
		rd2 := stateReaders(r.Chain2)
		var keys []string
		for k := range rd1 {
			keys = append(keys, k)
		}
		sort.Strings(keys)
		for _, k := range keys {
			if rd1[k] != rd2[k] {
				rep.Violate("C14/queries-differ/"+k, "read from the re-imported chain: "+k+" differs",
					map[string]interface{}{"accepted_privileged_messages": sent, "exporting_chain": trunc(rd1[k], 400), "imported_chain": trunc(rd2[k], 400)})
			}
		}
	}
	for i := 0; i*40 < len(cases); i++ {
		end := (i + 1) * 40
		if end > len(cases) {
			end = len(cases)
		}
		writeCases(c, rep, fmt.Sprintf("cases_C14_%d.v", i), "From Sif Require Import Check.Genesis.\n",
			fmt.Sprintf("Definition cases : list (list int) := %s.\nDefinition M := Eval vm_compute in (gen_mismatches cases).\n", coqList(cases[i*40:end])))
	}
	rep.Evaluations = n
	rep.DistinctNontrivial = n
	rep.ImplTraces = n
	rep.Rule = "one case = one reachable state (final state of a generated AMM / bridge / dispensation / margin history, the state after an accepted policy message, or a registry uploaded with MsgSetRegistry in any order and with repeated denoms, then edited) exported with ExportAppStateAndValidators, imported by InitChain into a fresh application, exported again: per-module JSON of the eight Sifchain modules compared (epochs start height exempt), and the harness's state readers (pools, providers, buckets, periods, prophecies, whitelists, records, claims, margin positions, position counters, margin parameters, whitelist, balances) compared on both applications"
	return rep
}

// ---- encoders for Check/Genesis.v ----

func encPoolBody(en *env.Enc, p env.Pool) {
	en.Z(p.NB).Z(p.EB).Z(p.Units).Z(p.NL).Z(p.EL).Z(p.NC).Z(p.EC).Z(p.RPD).Z(p.RAE)
}
func encLPBody(en *env.Enc, l env.LP) {
	en.Z(l.Units).Len(len(l.Unlocks))
	for _, u := range l.Unlocks {
		en.I(u.Height).Z(u.Units)
	}
	en.I(l.Last)
}
func encRP(en *env.Enc, r env.RewardPeriod) {
	en.U(r.Start).U(r.End).Z(r.Alloc).Len(len(r.Mults))
	for _, m := range r.Mults {
		en.Z(m[0]).Z(m[1])
	}
	en.Z(r.Default).B(r.Distribute).U(r.Mod)
}
func encPDp(en *env.Enc, p env.LppdPeriod) { en.Z(p.Rate).U(p.Start).U(p.End).U(p.Mod) }
func encPolParts(en *env.Enc, p polState) {
	en.Z(p.Max).U(p.Epoch).B(p.Active).Z(p.Cur)
	en.I(p.Start).I(p.End).I(p.EpochLen).Z(p.Gov).Z(p.Block).Z(p.Running).Z(p.Inter).I(p.Epochs).I(p.Blocks)
}

// encCarried: the part of the observed state that the clp genesis format carries (stores as nested lists)
func encCarried(en *env.Enc, s env.ClpState, p polState) {
	en.Len(len(s.Pools))
	for _, pl := range s.Pools {
		en.I(pl.Asset)
		encPoolBody(en, pl)
	}
	var assets []int64
	by := map[int64][]env.LP{}
	for _, l := range s.LPs {
		if _, ok := by[l.Asset]; !ok {
			assets = append(assets, l.Asset)
		}
		by[l.Asset] = append(by[l.Asset], l)
	}
	en.Len(len(assets))
	for _, a := range assets {
		en.I(a).Len(len(by[a]))
		for _, l := range by[a] {
			en.I(l.Addr)
			encLPBody(en, l)
		}
	}
	en.Len(len(s.Buckets))
	for _, b := range s.Buckets {
		en.I(b.Denom).Z(b.Amt)
	}
	en.Len(len(s.Rewards))
	for _, r := range s.Rewards {
		encRP(en, r)
	}
	en.Len(len(s.Lppd))
	for _, d := range s.Lppd {
		encPDp(en, d)
	}
	encPolParts(en, p)
}

// encClpGen: the exported clp genesis document, lists in document order
func encClpGen(en *env.Enc, e *env.Env, g clptypes.GenesisState) {
	en.Len(len(g.PoolList))
	for _, p := range g.PoolList {
		en.I(assetID(e, p.ExternalAsset.Symbol))
		encPoolBody(en, env.Pool{NB: bi(p.NativeAssetBalance), EB: bi(p.ExternalAssetBalance), Units: bi(p.PoolUnits), NL: bi(p.NativeLiabilities), EL: bi(p.ExternalLiabilities),
			NC: bi(p.NativeCustody), EC: bi(p.ExternalCustody), RPD: bi(p.RewardPeriodNativeDistributed), RAE: bi(p.RewardAmountExternal)})
	}
	en.Len(len(g.LiquidityProviders))
	for _, lp := range g.LiquidityProviders {
		l := env.LP{Units: bi(lp.LiquidityProviderUnits), Last: lp.LastUpdatedBlock}
		for _, u := range lp.Unlocks {
			l.Unlocks = append(l.Unlocks, env.Unlock{Height: u.RequestHeight, Units: bi(u.Units)})
		}
		en.I(assetID(e, lp.Asset.Symbol)).I(e.AcctID[lp.LiquidityProviderAddress])
		encLPBody(en, l)
	}
	// buckets are listed in denom byte order; the model numbers rowan 0 (a convention of the model, not of the store),
	// so the list is put into id order before it is compared
	bl := append([]clptypes.RewardsBucket{}, g.RewardsBucketList...)
	sort.Slice(bl, func(i, j int) bool { return assetID(e, bl[i].Denom) < assetID(e, bl[j].Denom) })
	en.Len(len(bl))
	for _, b := range bl {
		en.I(assetID(e, b.Denom)).Z(b.Amount.BigInt())
	}
	en.Len(len(g.RewardParams.RewardPeriods))
	for _, p := range g.RewardParams.RewardPeriods {
		r := env.RewardPeriod{Start: p.RewardPeriodStartBlock, End: p.RewardPeriodEndBlock, Distribute: p.RewardPeriodDistribute, Mod: p.RewardPeriodMod,
			Alloc: bi(*p.RewardPeriodAllocation), Default: decBig(*p.RewardPeriodDefaultMultiplier)}
		for _, m := range p.RewardPeriodPoolMultipliers {
			id, ok := e.DenomID[m.PoolMultiplierAsset]
			if !ok {
				id = 60000
			}
			r.Mults = append(r.Mults, [2]*big.Int{big.NewInt(id), decBig(*m.Multiplier)})
		}
		encRP(en, r)
	}
	en.Len(len(g.ProviderDistributionParams.DistributionPeriods))
	for _, p := range g.ProviderDistributionParams.DistributionPeriods {
		encPDp(en, env.LppdPeriod{Rate: decBig(p.DistributionPeriodBlockRate), Start: p.DistributionPeriodStartBlock, End: p.DistributionPeriodEndBlock, Mod: p.DistributionPeriodMod})
	}
	encPolParts(en, polState{Max: bi(g.LiquidityProtectionParams.MaxRowanLiquidityThreshold), Epoch: g.LiquidityProtectionParams.EpochLength, Active: g.LiquidityProtectionParams.IsActive,
		Cur: bi(g.LiquidityProtectionRateParams.CurrentRowanLiquidityThreshold), Start: g.PmtpParams.PmtpPeriodStartBlock, End: g.PmtpParams.PmtpPeriodEndBlock,
		EpochLen: g.PmtpParams.PmtpPeriodEpochLength, Gov: decBig(g.PmtpParams.PmtpPeriodGovernanceRate), Block: decBig(g.PmtpRateParams.PmtpPeriodBlockRate),
		Running: decBig(g.PmtpRateParams.PmtpCurrentRunningRate), Inter: decBig(g.PmtpRateParams.PmtpInterPolicyRate), Epochs: g.PmtpEpoch.EpochCounter, Blocks: g.PmtpEpoch.BlockCounter})
}

func clpGenCase(id int, e *env.Env, h int64, s1 env.ClpState, p1 polState, raw json.RawMessage, s2 env.ClpState, p2 polState) string {
	var g clptypes.GenesisState
	e.App.AppCodec().MustUnmarshalJSON(raw, &g)
	en := &env.Enc{}
	en.I(1).I(int64(id)).I(h)
	encCarried(en, s1, p1)
	encClpGen(en, e, g)
	encCarried(en, s2, p2)
	return en.Coq()
}

func (ids dIDs) recBody(en *env.Enc, r dRecord) {
	en.I(ids.name[r.Name]).I(r.Type).I(ids.acctOf(r.Rcp))
	ids.coins(en, r.Coins)
	en.I(ids.acctOf(r.Runner)).I(r.Start).I(r.Done)
}

func (ids dIDs) carried(en *env.Enc, s dState) {
	ids.table(en, s.Pending)
	ids.table(en, s.Completed)
	ids.table(en, s.Failed)
	en.Len(len(s.Dists))
	for _, d := range s.Dists {
		en.I(ids.name[d[0]]).Z(bigStr(d[1])).I(ids.acctOf(d[2]))
	}
	en.Len(len(s.Claims))
	for _, c := range s.Claims {
		en.I(ids.acctOf(c[0])).Z(bigStr(c[1]))
	}
}

func dispGenCase(id int, h dHistory, s1 dState, raw json.RawMessage, s2 dState) string {
	var g disptypes.GenesisState
	h.W.App.AppCodec().MustUnmarshalJSON(raw, &g)
	ids := h.ids()
	en := &env.Enc{}
	en.I(2).I(int64(id))
	ids.carried(en, s1)
	var recs []*disptypes.DistributionRecord
	if g.DistributionRecords != nil {
		recs = g.DistributionRecords.DistributionRecords
	}
	en.Len(len(recs))
	for _, r := range recs {
		en.I(int64(r.DistributionStatus))
		ids.recBody(en, dRecord{Name: r.DistributionName, Rcp: r.RecipientAddress, Runner: r.AuthorizedRunner, Type: int64(r.DistributionType), Coins: r.Coins,
			Start: r.DistributionStartHeight, Done: r.DistributionCompletedHeight})
	}
	if g.Distributions != nil {
		en.Len(len(g.Distributions.Distributions))
		for _, d := range g.Distributions.Distributions {
			en.I(ids.name[d.DistributionName]).I(int64(d.DistributionType)).I(ids.acctOf(d.Runner))
		}
	} else {
		en.Len(0)
	}
	if g.Claims != nil {
		en.Len(len(g.Claims.UserClaims))
		for _, c := range g.Claims.UserClaims {
			en.I(ids.acctOf(c.UserAddress)).I(int64(c.UserClaimType))
		}
	} else {
		en.Len(0)
	}
	ids.carried(en, s2)
	return en.Coq()
}

// scriptCounters: corpus history for C14 — two positions opened, the later one closed again: the lifetime counter (2) is
// above the highest id among the open positions (1).
func scriptCounters() MHistory {
	desc := map[string]interface{}{"corpus": "two positions opened by two owners, the second closed before the export; one address on the margin whitelist"}
	e := env.New(env.Opts{NUsers: 4, Tokens: []string{"ceth"}})
	e.BeginBlock()
	mustOK(e.UpdateRewardsParams(0, 0, 0, "", false), "rewards params")
	n := new(big.Int).Mul(big.NewInt(1000000), chain.E(18))
	mustOK(e.CreatePool(e.Users[0], "ceth", n, n), "create pool")
	ps := *margintypes.DefaultGenesis().Params
	ps.ForceCloseFundAddress, ps.IncrementalInterestPaymentFundAddress = e.Users[0].Addr.String(), e.Users[0].Addr.String()
	mustOK(e.Tx(e.Admin, &margintypes.MsgUpdateParams{Signer: e.Admin.Addr.String(), Params: &ps}), "margin params")
	mustOK(e.Tx(e.Admin, &margintypes.MsgUpdatePools{Signer: e.Admin.Addr.String(), Pools: []string{"ceth"}}), "margin pools")
	e.NextBlock()
	e.NextBlock()
	for _, u := range e.Users[2:4] {
		m := margintypes.MsgOpen{Signer: u.Addr.String(), CollateralAsset: "rowan", CollateralAmount: env.U(chain.E(18)), BorrowAsset: "ceth", Position: margintypes.Position_LONG, Leverage: sdk.NewDec(2)}
		mustOK(e.Tx(u, &m), "open")
	}
	mustOK(e.Tx(e.Users[3], &margintypes.MsgClose{Signer: e.Users[3].Addr.String(), Id: 2}), "close")
	mustOK(e.Tx(e.Admin, &margintypes.MsgWhitelist{Signer: e.Admin.Addr.String(), WhitelistedAddress: e.Users[1].Addr.String()}), "whitelist")
	return MHistory{ID: 9014, Env: e, Desc: desc}
}

// scriptManyPositions: corpus history for C14 — 120 open positions of four owners: more than one default page (100) of the
// SDK's pagination, which listing helpers fall back to when they are handed an empty page request.
func scriptManyPositions() MHistory {
	desc := map[string]interface{}{"corpus": "120 open positions (four owners, 30 each) on one pool"}
	e := env.New(env.Opts{NUsers: 4, Tokens: []string{"ceth"}})
	e.BeginBlock()
	mustOK(e.UpdateRewardsParams(0, 0, 0, "", false), "rewards params")
	n := new(big.Int).Mul(big.NewInt(1000000), chain.E(18))
	mustOK(e.CreatePool(e.Users[0], "ceth", n, n), "create pool")
	ps := *margintypes.DefaultGenesis().Params
	ps.ForceCloseFundAddress, ps.IncrementalInterestPaymentFundAddress = e.Users[0].Addr.String(), e.Users[0].Addr.String()
	ps.MaxOpenPositions = 1000
	mustOK(e.Tx(e.Admin, &margintypes.MsgUpdateParams{Signer: e.Admin.Addr.String(), Params: &ps}), "margin params")
	mustOK(e.Tx(e.Admin, &margintypes.MsgUpdatePools{Signer: e.Admin.Addr.String(), Pools: []string{"ceth"}}), "margin pools")
	e.NextBlock()
	e.NextBlock()
	for i := 0; i < 120; i++ {
		u := e.Users[i%4]
		coll, bor := "rowan", "ceth"
		if i%3 == 0 {
			coll, bor = "ceth", "rowan"
		}
		m := margintypes.MsgOpen{Signer: u.Addr.String(), CollateralAsset: coll, CollateralAmount: env.U(new(big.Int).Mul(big.NewInt(int64(1+i%7)), chain.E(18))), BorrowAsset: bor, Position: margintypes.Position_LONG, Leverage: sdk.NewDec(2)}
		mustOK(e.Tx(u, &m), "open")
		if i%40 == 39 {
			e.NextBlock()
		}
	}
	return MHistory{ID: 9015, Env: e, Desc: desc}
}

// marginGenCase: the margin state of the exporting chain, the position list of the exported document in the document's own
// order, the margin state of the imported chain (Check/Genesis.v, GMargin).
func marginGenCase(id int, e *env.Env, s1 env.MarginState, raw json.RawMessage, s2 env.MarginState) string {
	var g margintypes.GenesisState
	e.App.AppCodec().MustUnmarshalJSON(raw, &g)
	en := &env.Enc{}
	en.I(3).I(int64(id))
	en.Margin(s1)
	en.Len(len(g.MtpList))
	dn := func(sym string) int64 {
		if i, ok := e.DenomID[sym]; ok {
			return i
		}
		return 60000
	}
	for _, m := range g.MtpList {
		en.I(e.AcctID[m.Address]).I(int64(m.Id)).I(dn(m.CollateralAsset)).Z(m.CollateralAmount.BigInt()).Z(m.Liabilities.BigInt()).Z(m.InterestPaidCollateral.BigInt()).
			Z(m.InterestPaidCustody.BigInt()).Z(m.InterestUnpaidCollateral.BigInt()).I(dn(m.CustodyAsset)).Z(m.CustodyAmount.BigInt()).Z(m.Leverage.BigInt())
	}
	en.Margin(s2)
	return en.Coq()
}

var c14PrivMethods = []string{"admin.AddAccount", "admin.RemoveAccount", "admin.SetParams", "clp.AddProviderDistributionPeriod", "clp.AddRewardPeriod",
	"clp.DecommissionPool", "clp.ModifyLiquidityProtectionRates", "clp.ModifyPmtpRates", "clp.SetSymmetryThreshold", "clp.UpdateLiquidityProtectionParams",
	"clp.UpdatePmtpParams", "clp.UpdateRewardsParams", "clp.UpdateStakingRewardParams", "clp.UpdateSwapFeeParams", "ethbridge.RescueCeth", "ethbridge.SetBlacklist",
	"ethbridge.SetPause", "ethbridge.UpdateCethReceiverAccount", "ethbridge.UpdateWhiteListValidator", "margin.AdminClose", "margin.Dewhitelist", "margin.UpdateParams",
	"margin.UpdatePools", "margin.UpdateRowanCollateral", "margin.Whitelist", "tokenregistry.Deregister", "tokenregistry.Register"}

// stateReaders: what the keepers' read functions (the ones behind the modules' queries) answer, per item.
func stateReaders(c *chain.Chain) map[string]string {
	ctx := c.Ctx()
	a := c.App
	out := map[string]string{}
	reg := a.TokenRegistryKeeper.GetRegistry(ctx)
	out["registry-entries"] = reg.String()
	out["admin-accounts"] = fmt.Sprint(a.AdminKeeper.GetAdminAccounts(ctx))
	out["admin-params"] = fmt.Sprint(a.AdminKeeper.GetParams(ctx))
	cp := a.ClpKeeper.GetParams(ctx)
	out["clp-params"] = cp.String()
	out["clp-symmetry"] = a.ClpKeeper.GetSymmetryThreshold(ctx).String() + " " + a.ClpKeeper.GetSymmetryRatio(ctx).String()
	out["clp-whitelist"] = fmt.Sprint(a.ClpKeeper.GetClpWhiteList(ctx))
	sf := a.ClpKeeper.GetSwapFeeParams(ctx)
	out["clp-swap-fee-params"] = sf.String()
	out["clp-rewards-params"] = a.ClpKeeper.GetRewardsParams(ctx).String()
	out["clp-pmtp-params"] = a.ClpKeeper.GetPmtpParams(ctx).String()
	pr := a.ClpKeeper.GetPmtpRateParams(ctx)
	out["clp-pmtp-rates"] = pr.String()
	out["clp-provider-distribution-params"] = a.ClpKeeper.GetProviderDistributionParams(ctx).String()
	out["clp-liquidity-protection-params"] = a.ClpKeeper.GetLiquidityProtectionParams(ctx).String()
	lr := a.ClpKeeper.GetLiquidityProtectionRateParams(ctx)
	out["clp-liquidity-protection-rates"] = lr.String()
	mp := a.MarginKeeper.GetParams(ctx)
	out["margin-params"] = mp.String()
	wl, _, _ := a.MarginKeeper.GetWhitelist(ctx, nil)
	out["margin-whitelist"] = fmt.Sprint(wl)
	out["ethbridge-paused"] = fmt.Sprint(a.EthbridgeKeeper.IsPaused(ctx))
	out["ethbridge-blacklist"] = fmt.Sprint(a.EthbridgeKeeper.GetBlacklist(ctx))
	out["ethbridge-ceth-receiver"] = a.EthbridgeKeeper.GetCethReceiverAccount(ctx).String()
	pt := a.EthbridgeKeeper.GetPeggyToken(ctx)
	out["ethbridge-peggy-tokens"] = pt.String()
	out["oracle-admin"] = a.OracleKeeper.GetAdminAccount(ctx).String()
	out["oracle-whitelist"] = fmt.Sprint(a.OracleKeeper.GetOracleWhiteList(ctx))
	out["mint-params"] = a.MintKeeper.GetParams(ctx).String()
	return out
}
