package props

import (
	"fmt"
	"math/big"

	"sifverif/chain"
	"sifverif/env"
	"sifverif/report"
)

type req struct {
	H int64
	U *big.Int
}

// MonUnlocks — C15 reference ledger: the specification side, kept independently of the chain's records.
func MonUnlocks(rep *report.Report, h History) {
	ledger := map[[2]int64][]req{}
	prune := func(k [2]int64, height int64, L, C uint64) {
		var out []req
		for _, r := range ledger[k] {
			if height >= r.H+int64(L)+int64(C) || r.U.Sign() == 0 {
				continue
			}
			out = append(out, r)
		}
		ledger[k] = out
	}
	sum := func(rs []req) *big.Int {
		t := new(big.Int)
		for _, r := range rs {
			t.Add(t, r.U)
		}
		return t
	}
	for _, s := range h.Steps {
		if s.Kind != 1 || !s.OK {
			continue
		}
		m := s.Msg
		if m.Tag != 3 && m.Tag != 4 && m.Tag != 6 && m.Tag != 7 {
			continue
		}
		k := [2]int64{m.A, m.Signer}
		height, L, C := s.Pre.Height, s.Pre.Params.Lock, s.Pre.Params.Cancel
		prune(k, height, L, C)
		lpPre, lpPost := lpOf(s.Pre, m.A, m.Signer), lpOf(s.Post, m.A, m.Signer)
		switch m.Tag {
		case 6:
			ledger[k] = append(ledger[k], req{height, new(big.Int).Set(m.X)})
			if lpPost != nil && sum(ledger[k]).Cmp(lpPost.Units) > 0 {
				rep.Violate("C15/requests-exceed-units", fmt.Sprintf("outstanding requests %s > provider units %s", sum(ledger[k]), lpPost.Units), replayOf(h, s.StepNo))
			}
		case 3, 4, 7:
			var need *big.Int
			eligible := func(r req) bool { return true }
			if m.Tag == 7 {
				need = new(big.Int).Set(m.X)
			} else {
				left := new(big.Int)
				if lpPost != nil {
					left = lpPost.Units
				}
				need = new(big.Int).Sub(lpPre.Units, left)
				if L > 0 {
					eligible = func(r req) bool { return r.H+int64(L) <= height }
					tot := new(big.Int)
					for _, r := range ledger[k] {
						if eligible(r) {
							tot.Add(tot, r.U)
						}
					}
					if tot.Cmp(need) < 0 {
						rep.Violate("C15/removed-without-matured-request", fmt.Sprintf("removed %s units at height %d with lock %d, matured unexpired requests total %s", need, height, L, tot), replayOf(h, s.StepNo))
					}
				}
			}
			for i := range ledger[k] {
				if need.Sign() == 0 {
					break
				}
				if !eligible(ledger[k][i]) {
					continue
				}
				if ledger[k][i].U.Cmp(need) <= 0 {
					need.Sub(need, ledger[k][i].U)
					ledger[k][i].U = new(big.Int)
				} else {
					ledger[k][i].U = new(big.Int).Sub(ledger[k][i].U, need)
					need = new(big.Int)
				}
			}
			if lpPost == nil {
				delete(ledger, k)
			}
		}
		// the chain's records for this provider (empty ones aside) must be the ledger's open requests
		if lpPost != nil {
			var got, want []string
			for _, u := range lpPost.Unlocks {
				if u.Units.Sign() != 0 {
					got = append(got, fmt.Sprintf("%d:%s", u.Height, u.Units))
				}
			}
			for _, r := range ledger[k] {
				if r.U.Sign() != 0 {
					want = append(want, fmt.Sprintf("%d:%s", r.H, r.U))
				}
			}
			if fmt.Sprint(got) != fmt.Sprint(want) {
				rep.Violate("C15/ledger-mismatch", fmt.Sprintf("after %s the chain holds requests %v, the specification ledger %v", stepKind(s), got, want), replayOf(h, s.StepNo))
			}
			if sum(ledger[k]).Cmp(lpPost.Units) > 0 && m.Tag != 6 {
				rep.Violate("C15/requests-exceed-units", fmt.Sprintf("outstanding requests %s > provider units %s after %s", sum(ledger[k]), lpPost.Units, stepKind(s)), replayOf(h, s.StepNo))
			}
		}
	}
}

// C15 — unlock requests.
func C15(c Ctx) *report.Report {
	rep := report.New("C15", c.Seed, c.Tier)
	rng := chain.NewRng(c.Seed + 15)
	next := 0
	o := clpOpts(c, 30, 1200)
	o.Steps = 44
	o.Users = 3
	o.Tokens = []string{"ceth", "cusdc"}
	o.Weights = map[int]int{1: 2, 2: 4, 3: 6, 4: 7, 5: 1, 6: 9, 7: 4, 8: 0, 9: 0}
	o.Lppd, o.Rewards, o.Fees, o.Pmtp, o.Whitelist = false, false, false, false, false
	o.Locks, o.LockChanges, o.BlockEach, o.MaxExp = true, true, 2, 26
	hs := RunClpHistories(c, rep, rng, o, &next)
	for _, h := range hs {
		MonUnlocks(rep, h)
		if len(rep.Samples) < 2 && len(h.Steps) > 3 {
			rep.Sample(replayOf(h, 3))
		}
	}
	rep.Evaluations = next
	rep.DistinctNontrivial = countNontrivial(hs)
	rep.Rule = histRule + "; unlock-heavy mix (unlock / cancel / remove / remove-units / add by 3 providers over 2 pools), a block boundary every 2 messages, lock and cancel periods in {0,1,2,5,50} changed by the admin in the middle of histories; the monitor keeps the specification's request ledger independently and compares it with the chain's records"
	writeHistFiles(c, rep, "cases_C15", hs, 450)
	_ = env.ClpModuleID
	return rep
}
