package props

import (
	"encoding/hex"
	"fmt"
	"math/big"
	"os"
	"path/filepath"
	"strings"
	"sync"

	"github.com/Sifchain/sifnode/cmd/ebrelayer/txs"
	rtypes "github.com/Sifchain/sifnode/cmd/ebrelayer/types"
	ethbridgetypes "github.com/Sifchain/sifnode/x/ethbridge/types"
	sdk "github.com/cosmos/cosmos-sdk/types"
	"github.com/ethereum/go-ethereum/common"
	abci "github.com/tendermint/tendermint/abci/types"
	"go.uber.org/zap"

	"sifverif/chain"
	"sifverif/env"
	"sifverif/relayrig"
	"sifverif/report"
)

// the relayer's symbol table used in the check (sifchain denom <-> ethereum symbol)
const c16SymbolTable = `{"ibc/FEEDFACE": "ATOM", "xrowan": "erowan", "cweird": "Weird"}`

var c16Table = [][2]string{{"cweird", "Weird"}, {"ibc/FEEDFACE", "ATOM"}, {"xrowan", "erowan"}}

// attribute keys of the five fields the relayer needs (ids as in Model/Relayer.v)
var c16Keys = map[string]int64{"cosmos_sender": 1, "cosmos_sender_sequence": 2, "ethereum_receiver": 3, "symbol": 4, "amount": 5}

type c16Attr struct{ K, V string }

func encStr(en *env.Enc, s string) {
	en.Len(len(s))
	for i := 0; i < len(s); i++ {
		en.I(int64(s[i]))
	}
}

func encBytes(en *env.Enc, b []byte) {
	en.Len(len(b))
	for _, x := range b {
		en.I(int64(x))
	}
}

// ---- (A) Sifchain burn / lock event -> message for Ethereum ----

type c16MsgCase struct {
	Burn  bool
	Attrs []c16Attr
	OK    bool
	Err   string
	Out   rtypes.CosmosMsg
	Panic string
}

func runBurnLock(tr *txs.VerifSymbolTranslator, burn bool, attrs []c16Attr) (cs c16MsgCase) {
	cs.Burn, cs.Attrs = burn, attrs
	var as []abci.EventAttribute
	for _, a := range attrs {
		as = append(as, abci.EventAttribute{Key: []byte(a.K), Value: []byte(a.V)})
	}
	ct := rtypes.MsgLock
	if burn {
		ct = rtypes.MsgBurn
	}
	defer func() {
		if r := recover(); r != nil {
			cs.Panic = fmt.Sprint(r)
		}
	}()
	out, err := txs.BurnLockEventToCosmosMsg(ct, as, tr, zap.NewNop().Sugar())
	cs.OK, cs.Out = err == nil, out
	if err != nil {
		cs.Err = err.Error()
	}
	return cs
}

func (cs c16MsgCase) desc() map[string]interface{} {
	var as []string
	for _, a := range cs.Attrs {
		as = append(as, a.K+"="+a.V)
	}
	d := map[string]interface{}{"event": map[bool]string{true: "burn", false: "lock"}[cs.Burn], "attributes": as, "accepted": cs.OK, "error": cs.Err, "panic": cs.Panic}
	if cs.OK {
		seq := "<nil>"
		if cs.Out.CosmosSenderSequence != nil {
			seq = cs.Out.CosmosSenderSequence.String()
		}
		d["result"] = map[string]interface{}{"sender": string(cs.Out.CosmosSender), "sequence": seq, "receiver": cs.Out.EthereumReceiver.Hex(), "symbol": cs.Out.Symbol, "amount": fmt.Sprint(cs.Out.Amount)}
	}
	return d
}

func (cs c16MsgCase) enc(id int) string {
	en := &env.Enc{}
	en.I(1).I(int64(id)).B(cs.Burn).Len(len(cs.Attrs))
	for _, a := range cs.Attrs {
		k, ok := c16Keys[a.K]
		if !ok {
			k = 0
		}
		en.I(k)
		encStr(en, a.V)
	}
	en.B(cs.OK)
	if cs.OK {
		encStr(en, string(cs.Out.CosmosSender))
		if cs.Out.CosmosSenderSequence == nil {
			en.I(0)
		} else {
			en.I(1).Z(cs.Out.CosmosSenderSequence)
		}
		encBytes(en, cs.Out.EthereumReceiver.Bytes())
		encStr(en, cs.Out.Symbol)
		if cs.Out.Amount.IsNil() {
			en.I(0)
		} else {
			en.I(1).Z(cs.Out.Amount.BigInt())
		}
	}
	return en.Coq()
}

func tableLookup(s string, inverse bool) string {
	for _, r := range c16Table {
		if !inverse && r[0] == s {
			return r[1]
		}
		if inverse && r[1] == s {
			return r[0]
		}
	}
	return s
}

// monitor: the property restated on one parsed event
func monBurnLock(rep *report.Report, cs c16MsgCase) {
	if cs.Panic != "" {
		return // a crash of the parser is not a mistranslation; counted in the distribution
	}
	seen := map[string][]string{}
	for _, a := range cs.Attrs {
		if _, ok := c16Keys[a.K]; ok {
			seen[a.K] = append(seen[a.K], a.V)
		}
	}
	complete, unique := len(seen) == 5, true
	for _, v := range seen {
		if len(v) != 1 {
			unique = false
		}
	}
	if cs.OK && !complete {
		var missing []string
		for k := range c16Keys {
			if len(seen[k]) == 0 {
				missing = append(missing, k)
			}
		}
		rep.Violate("C16/incomplete-event-accepted", "an event without "+strings.Join(missing, ", ")+" was translated", cs.desc())
		return
	}
	if !cs.OK || !unique {
		return
	}
	sym := seen["symbol"][0]
	if cs.Burn {
		if !strings.HasPrefix(sym, "c") {
			rep.Violate("C16/burn-symbol-without-prefix-translated", fmt.Sprintf("burn of %q translated to %q instead of being rejected", sym, cs.Out.Symbol), cs.desc())
			return
		}
		if cs.Out.Symbol != sym[1:] {
			rep.Violate("C16/burn-symbol-mistranslated", fmt.Sprintf("burn of %q translated to %q, expected %q", sym, cs.Out.Symbol, sym[1:]), cs.desc())
		}
	} else if cs.Out.Symbol != tableLookup(sym, false) {
		rep.Violate("C16/lock-symbol-mistranslated", fmt.Sprintf("lock of %q translated to %q", sym, cs.Out.Symbol), cs.desc())
	}
	if string(cs.Out.CosmosSender) != seen["cosmos_sender"][0] {
		rep.Violate("C16/field-mistranslated/sender", "sender differs", cs.desc())
	}
	if want, ok := new(big.Int).SetString(seen["cosmos_sender_sequence"][0], 10); !ok || cs.Out.CosmosSenderSequence == nil || want.Cmp(cs.Out.CosmosSenderSequence) != 0 {
		rep.Violate("C16/field-mistranslated/sequence", "sequence differs", cs.desc())
	}
	if want, ok := new(big.Int).SetString(seen["amount"][0], 10); !ok || cs.Out.Amount.IsNil() || want.Cmp(cs.Out.Amount.BigInt()) != 0 {
		rep.Violate("C16/field-mistranslated/amount", "amount differs", cs.desc())
	}
	rv := strings.TrimPrefix(strings.TrimPrefix(seen["ethereum_receiver"][0], "0x"), "0X")
	if bz, err := hex.DecodeString(rv); err != nil || len(bz) != 20 || common.BytesToAddress(bz) != cs.Out.EthereumReceiver {
		rep.Violate("C16/field-mistranslated/receiver", "receiver differs", cs.desc())
	}
}

var c16Symbols = []string{"ceth", "cusdc", "ccat", "c", "cc", "xcy", "ethc", "eth", "Ceth", "cC", "rowan", "xrowan", "cweird", "ibc/FEEDFACE", "acb", "", "usdc"}

// c16Spell: one of the spellings of an Ethereum address that common.IsHexAddress accepts.
func c16Spell(rng *chain.Rng, a string) string {
	switch rng.Intn(8) {
	case 0:
		return strings.ToLower(a)
	case 1:
		return "0x" + strings.ToUpper(a[2:])
	case 2:
		return a[2:]
	case 3:
		return "0X" + a[2:]
	case 4:
		return strings.ToLower(a[2:])
	}
	return a
}

func genAttrs(rng *chain.Rng, e *env.BridgeEnv) []c16Attr {
	sender := e.Users[rng.Intn(len(e.Users))].Addr.String()
	base := []c16Attr{
		{"cosmos_sender", sender},
		{"cosmos_sender_sequence", fmt.Sprint(rng.Intn(1000))},
		{"ethereum_receiver", c16Spell(rng, ethAddrs[rng.Intn(len(ethAddrs))])},
		{"symbol", c16Symbols[rng.Intn(len(c16Symbols))]},
		{"amount", rng.LogUniform(60).String()},
	}
	extra := []c16Attr{{"module", "ethbridge"}, {"ethereum_chain_id", "1"}, {"token_contract_address", ethAddrs[0]}, {"ceth_amount", "65000000000000000"}}
	as := append([]c16Attr{}, base...)
	// the chain's own extra attributes
	for _, x := range extra {
		if rng.Intn(2) == 0 {
			as = append(as, x)
		}
	}
	switch rng.Intn(8) {
	case 0: // one of the five is missing
		i := rng.Intn(5)
		as = append(as[:i], as[i+1:]...)
	case 1: // one or two are missing, others repeated — with the same or with other values — so that the attribute count (and the number of distinct values) still reaches five
		other := func(d c16Attr) c16Attr {
			switch d.K {
			case "amount", "cosmos_sender_sequence":
				d.V = fmt.Sprint(1 + rng.Intn(100000))
			case "symbol":
				d.V = c16Symbols[rng.Intn(len(c16Symbols))]
			case "cosmos_sender":
				d.V = e.Users[rng.Intn(len(e.Users))].Addr.String()
				if rng.Intn(2) == 0 {
					d.V = chain.NewAccount(fmt.Sprintf("c16sender%d", rng.Intn(1000))).Addr.String()
				}
			case "ethereum_receiver":
				d.V = ethAddrs[rng.Intn(len(ethAddrs))]
			}
			return d
		}
		nMiss := 1 + rng.Intn(2)
		var miss []int
		for len(miss) < nMiss {
			i := rng.Intn(5)
			if len(miss) == 0 || miss[0] != i {
				miss = append(miss, i)
			}
		}
		isMiss := func(i int) bool { return i == miss[0] || (len(miss) > 1 && i == miss[1]) }
		var kept []c16Attr
		for i, a := range as {
			if i < 5 && isMiss(i) {
				continue
			}
			kept = append(kept, a)
		}
		j := rng.Intn(5)
		for isMiss(j) {
			j = rng.Intn(5)
		}
		for k := 0; k < nMiss; k++ {
			d := base[j]
			if rng.Intn(4) != 0 {
				d = other(d)
			}
			kept = append(kept, d)
			if rng.Intn(3) == 0 { // repeat another kept attribute next time
				j2 := rng.Intn(5)
				if !isMiss(j2) {
					j = j2
				}
			}
		}
		as = kept
	case 2: // a duplicated attribute with another value
		j := rng.Intn(5)
		d := base[j]
		switch d.K {
		case "amount", "cosmos_sender_sequence":
			d.V = fmt.Sprint(rng.Intn(100000))
		case "symbol":
			d.V = c16Symbols[rng.Intn(len(c16Symbols))]
		case "cosmos_sender":
			d.V = e.Users[rng.Intn(len(e.Users))].Addr.String()
		case "ethereum_receiver":
			d.V = ethAddrs[rng.Intn(len(ethAddrs))]
		}
		as = append(as, d)
	case 3: // an invalid value
		j := 1 + rng.Intn(4)
		bad := map[string][]string{"cosmos_sender_sequence": {"", "12x", "-", "0x10", "1e3"}, "ethereum_receiver": {"0x12", "zz", "", ethAddrs[0] + "00"},
			"amount": {"", "1.5", "abc", "1e18", "-"}, "symbol": {""}}
		for k := range as {
			if as[k].K == base[j].K {
				c := bad[as[k].K]
				as[k].V = c[rng.Intn(len(c))]
			}
		}
	}
	// reorder
	for i := len(as) - 1; i > 0; i-- {
		j := rng.Intn(i + 1)
		as[i], as[j] = as[j], as[i]
	}
	return as
}

// ---- (B) Ethereum event -> claim ----

type c16EvCase struct {
	Ev    rtypes.EthereumEvent
	OK    bool
	Err   string
	Panic string
	Out   ethbridgetypes.EthBridgeClaim
	Val   sdk.ValAddress
}

func runEthEvent(tr *txs.VerifSymbolTranslator, val sdk.ValAddress, ev rtypes.EthereumEvent) (cs c16EvCase) {
	cs.Ev, cs.Val = ev, val
	defer func() {
		if r := recover(); r != nil {
			cs.Panic = fmt.Sprint(r)
		}
	}()
	out, err := txs.EthereumEventToEthBridgeClaim(val, ev, tr, zap.NewNop().Sugar())
	cs.OK, cs.Out = err == nil, out
	if err != nil {
		cs.Err = err.Error()
	}
	return cs
}

func (cs c16EvCase) desc() map[string]interface{} {
	d := map[string]interface{}{"chain_id": cs.Ev.EthereumChainID.String(), "nonce": cs.Ev.Nonce.String(), "from": cs.Ev.From.Hex(), "to": string(cs.Ev.To), "token": cs.Ev.Token.Hex(),
		"symbol": cs.Ev.Symbol, "value": cs.Ev.Value.String(), "claim_type": cs.Ev.ClaimType.String(), "accepted": cs.OK, "error": cs.Err, "panic": trunc(cs.Panic, 80)}
	if cs.OK {
		d["claim"] = cs.Out.String()
	}
	return d
}

func (cs c16EvCase) enc(id int) string {
	en := &env.Enc{}
	en.I(2).I(int64(id))
	en.B(cs.Ev.ClaimType == ethbridgetypes.ClaimType_CLAIM_TYPE_BURN).Z(cs.Ev.EthereumChainID).Z(cs.Ev.Nonce)
	encBytes(en, cs.Ev.From.Bytes())
	encBytes(en, cs.Ev.Token.Bytes())
	encStr(en, cs.Ev.Symbol)
	en.Z(cs.Ev.Value)
	_, err := sdk.AccAddressFromBech32(string(cs.Ev.To))
	en.B(err == nil) // bech32 decoding is not modelled: validity of the recipient is an input
	en.B(cs.OK)
	if cs.OK {
		en.I(cs.Out.EthereumChainId).I(cs.Out.Nonce)
		encStr(en, cs.Out.Symbol)
		en.Z(cs.Out.Amount.BigInt())
	}
	en.B(cs.Panic != "")
	return en.Coq()
}

func monEthEvent(rep *report.Report, cs c16EvCase) {
	if !cs.OK || cs.Panic != "" {
		return
	}
	ev, c := cs.Ev, cs.Out
	bad := func(f string) {
		rep.Violate("C16/claim-field-mistranslated/"+f, "the claim's "+f+" differs from the event's", cs.desc())
	}
	// the property quantifies over chain ids and nonces up to 2^63-1 (the claim's fields are int64)
	if !ev.EthereumChainID.IsInt64() || !ev.Nonce.IsInt64() {
		return
	}
	if c.EthereumChainId != ev.EthereumChainID.Int64() {
		bad("chain id")
	}
	if c.Nonce != ev.Nonce.Int64() {
		bad("nonce")
	}
	if !strings.EqualFold(c.EthereumSender, ev.From.Hex()) {
		bad("sender")
	}
	if !strings.EqualFold(c.TokenContractAddress, ev.Token.Hex()) {
		bad("token contract")
	}
	if !strings.EqualFold(c.BridgeContractAddress, ev.BridgeContractAddress.Hex()) {
		bad("bridge contract")
	}
	if c.CosmosReceiver != string(ev.To) {
		bad("recipient")
	}
	if c.Amount.BigInt().Cmp(ev.Value) != 0 {
		bad("amount")
	}
	if c.ClaimType != ev.ClaimType {
		bad("claim type")
	}
	if c.ValidatorAddress != cs.Val.String() {
		bad("validator")
	}
	want := strings.ToLower(ev.Symbol)
	if ev.ClaimType == ethbridgetypes.ClaimType_CLAIM_TYPE_BURN {
		want = tableLookup(ev.Symbol, true)
	}
	if c.Symbol != want {
		bad("symbol")
	}
}

func genEthEvent(rng *chain.Rng, e *env.BridgeEnv) rtypes.EthereumEvent {
	pickBig := func() *big.Int {
		c := []*big.Int{big.NewInt(0), big.NewInt(1), big.NewInt(int64(rng.Intn(100000))), new(big.Int).Sub(pow2(63), big.NewInt(1)), pow2(63), pow2(64), new(big.Int).Add(pow2(64), big.NewInt(5))}
		return c[rng.Intn(len(c))]
	}
	ev := rtypes.EthereumEvent{EthereumChainID: big.NewInt(int64(1 + rng.Intn(5))), Nonce: big.NewInt(int64(rng.Intn(100000)))}
	if rng.Intn(6) == 0 {
		ev.EthereumChainID = pickBig()
	}
	if rng.Intn(6) == 0 {
		ev.Nonce = pickBig()
	}
	var a [20]byte
	for i := range a {
		a[i] = byte(rng.Intn(256))
	}
	ev.From = common.BytesToAddress(a[:])
	ev.BridgeContractAddress = common.HexToAddress(ethAddrs[0])
	if rng.Intn(2) == 0 {
		ev.Token = common.Address{}
	} else {
		ev.Token = common.HexToAddress(ethAddrs[1+rng.Intn(2)])
	}
	syms := []string{"eth", "ETH", "Eth", "USDC", "usdc", "erowan", "Weird", "ATOM", "cAt", "Cc", "", "dash"}
	ev.Symbol = syms[rng.Intn(len(syms))]
	vals := []*big.Int{big.NewInt(0), big.NewInt(1), rng.LogUniform(40), new(big.Int).Sub(pow2(255), big.NewInt(1)), pow2(255), new(big.Int).Sub(pow2(256), big.NewInt(1))}
	ev.Value = vals[rng.Intn(len(vals))]
	ev.To = []byte(e.Users[rng.Intn(len(e.Users))].Addr.String())
	switch rng.Intn(10) {
	case 0:
		ev.To = []byte("sif1notbech32")
	case 1:
		ev.To = []byte("")
	case 2:
		ev.To = []byte("cosmos1qyqszqgpqyqszqgpqyqszqgpqyqszqgpjnp7du")
	}
	ev.ClaimType = ethbridgetypes.ClaimType_CLAIM_TYPE_LOCK
	if rng.Intn(2) == 0 {
		ev.ClaimType = ethbridgetypes.ClaimType_CLAIM_TYPE_BURN
	}
	return ev
}

// C16 — the relayer translates bridge events faithfully in both directions.
func C16(c Ctx) *report.Report {
	rep := report.New("C16", c.Seed, c.Tier)
	rng := chain.NewRng(c.Seed + 16)
	tr, err := txs.VerifNewSymbolTranslator([]byte(c16SymbolTable))
	if err != nil {
		panic(err)
	}
	e := env.NewBridge([]int64{60, 40}, []bool{true, true}, 3)
	var cases []string
	seen := map[string]bool{}
	add := func(s string, d map[string]interface{}) {
		rep.CaseIndex[fmt.Sprint(len(cases))] = d
		cases = append(cases, s)
		seen[s[len(s)/6:]] = true
	}
	// corpus first: the symbols and attribute lists of finding F-10
	for _, sym := range []string{"xcy", "ethc", "ceth", "ccat"} {
		as := []c16Attr{{"cosmos_sender", e.Users[0].Addr.String()}, {"cosmos_sender_sequence", "7"}, {"ethereum_receiver", ethAddrs[0]}, {"symbol", sym}, {"amount", "1000"}}
		cs := runBurnLock(tr, true, as)
		monBurnLock(rep, cs)
		add(cs.enc(len(cases)), cs.desc())
	}
	{
		as := []c16Attr{{"cosmos_sender", e.Users[0].Addr.String()}, {"cosmos_sender", e.Users[0].Addr.String()}, {"ethereum_receiver", ethAddrs[0]}, {"symbol", "ceth"}, {"amount", "1000"}}
		cs := runBurnLock(tr, true, as)
		monBurnLock(rep, cs)
		add(cs.enc(len(cases)), cs.desc())
	}
	n := c.N(1500, 40000)
	for i := 0; i < n; i++ {
		cs := runBurnLock(tr, rng.Intn(2) == 0, genAttrs(rng, e))
		monBurnLock(rep, cs)
		rep.Count(fmt.Sprintf("sif-event.%s", map[bool]string{true: "translated", false: "rejected"}[cs.OK]))
		if cs.Panic != "" {
			rep.Count("sif-event.parser-panic")
		}
		add(cs.enc(len(cases)), cs.desc())
	}
	val := sdk.ValAddress(e.Vals[0].Addr)
	for i := 0; i < n; i++ {
		cs := runEthEvent(tr, val, genEthEvent(rng, e))
		monEthEvent(rep, cs)
		rep.Count(fmt.Sprintf("eth-event.%s", map[bool]string{true: "translated", false: "rejected"}[cs.OK]))
		if cs.Panic != "" {
			rep.Count("eth-event.parser-panic")
		}
		add(cs.enc(len(cases)), cs.desc())
		if len(rep.Samples) < 2 && cs.OK {
			rep.Sample(cs.desc())
		}
	}
	// (E) what the relayer built, delivered to the chain: one validator holding all the whitelisted power submits the claim of
	// an event, so it is final at once; the receiver named by the event must then hold exactly the event's value in the
	// denom the translation gives (lock: "c" + the lower-cased symbol; burn: the table's denom for the symbol, letter for
	// letter — IBC denoms carry an upper-case hash), and nobody else anything
	{
		e2 := env.NewBridge([]int64{100}, []bool{true}, 3)
		val2 := e2.ValAddr(0)
		table := map[string]string{"ATOM": "ibc/FEEDFACE", "erowan": "xrowan", "Weird": "cweird"}
		for i := 0; i < c.N(40, 400); i++ {
			ev := genEthEvent(rng, e2)
			ev.EthereumChainID, ev.Nonce = big.NewInt(1), big.NewInt(int64(1000+i))
			ev.To = []byte(e2.Users[i%3].Addr.String())
			ev.Symbol = []string{"ATOM", "ATOM", "erowan", "Weird", "USDC", "usdc", "dash", "eth"}[rng.Intn(8)]
			if ev.Symbol == "eth" {
				ev.Token = common.Address{}
			}
			ev.Value = new(big.Int).Add(rng.LogUniform(30), big.NewInt(1))
			cs := runEthEvent(tr, val2, ev)
			if !cs.OK {
				rep.Count("chain-delivery.relayer-rejected")
				continue
			}
			want := "c" + strings.ToLower(ev.Symbol)
			if ev.ClaimType == ethbridgetypes.ClaimType_CLAIM_TYPE_BURN {
				want = ev.Symbol
				if t, ok := table[ev.Symbol]; ok {
					want = t
				}
			}
			ctx0 := e2.Ctx()
			recv, _ := sdk.AccAddressFromBech32(string(ev.To))
			before := e2.App.BankKeeper.GetAllBalances(ctx0, recv)
			m := ethbridgetypes.NewMsgCreateEthBridgeClaim(&cs.Out)
			res := e2.Tx(e2.Vals[0], &m)
			after := e2.App.BankKeeper.GetAllBalances(e2.Ctx(), recv)
			d := cs.desc()
			d["delivered_code"], d["delivered_log"], d["expected_denom"] = res.Code, trunc(res.Log, 120), want
			rep.Count("chain-delivery." + okStr(res.Code == 0))
			if res.Code != 0 {
				continue
			}
			gained := after.Sub(before)
			wantCoins := sdk.NewCoins(sdk.NewCoin(want, sdk.NewIntFromBigInt(ev.Value)))
			d["credited"] = gained.String()
			if gained.String() != wantCoins.String() {
				rep.Violate("C16/chain/credited-differs-from-event", fmt.Sprintf("the event says %s of %q (denom %s); the receiver was credited %s", ev.Value, ev.Symbol, want, gained), d)
			}
			if i%6 == 5 {
				e2.NextBlock()
			}
		}
	}
	// claim identities: two different events must not share one (the oracle files claims under this id)
	idOf := func(cs c16EvCase) string {
		oc, err := ethbridgetypes.CreateOracleClaimFromEthClaim(&cs.Out)
		if err != nil {
			return ""
		}
		return oc.Id
	}
	mkEv := func(chainID, nonce int64, from string) rtypes.EthereumEvent {
		return rtypes.EthereumEvent{EthereumChainID: big.NewInt(chainID), Nonce: big.NewInt(nonce), From: common.HexToAddress(from), Token: common.Address{}, Symbol: "eth",
			Value: big.NewInt(1000), To: []byte(e.Users[0].Addr.String()), ClaimType: ethbridgetypes.ClaimType_CLAIM_TYPE_LOCK, BridgeContractAddress: common.HexToAddress(ethAddrs[0])}
	}
	checkPair := func(a, b rtypes.EthereumEvent) {
		ca, cb := runEthEvent(tr, val, a), runEthEvent(tr, val, b)
		if !ca.OK || !cb.OK {
			return
		}
		same := a.EthereumChainID.Cmp(b.EthereumChainID) == 0 && a.Nonce.Cmp(b.Nonce) == 0 && a.From == b.From
		if !same && idOf(ca) == idOf(cb) && idOf(ca) != "" {
			sig := "C16/claim-identity-collision/one-chain"
			if a.EthereumChainID.Cmp(b.EthereumChainID) != 0 {
				sig = "C16/claim-identity-collision/across-chain-ids"
			}
			rep.Violate(sig, fmt.Sprintf("events (chain %s, nonce %s) and (chain %s, nonce %s) of sender %s share the claim identity %s", a.EthereumChainID, a.Nonce, b.EthereumChainID, b.Nonce, a.From.Hex(), idOf(ca)),
				map[string]interface{}{"event_1": ca.desc(), "event_2": cb.desc(), "identity": idOf(ca)})
		}
		rep.Count("identity.pairs")
	}
	checkPair(mkEv(1, 23, ethAddrs[1]), mkEv(12, 3, ethAddrs[1])) // corpus: finding F-8
	for i := 0; i < c.N(400, 10000); i++ {
		ch := int64(1 + rng.Intn(3))
		n1, n2 := int64(rng.Intn(2000)), int64(rng.Intn(2000))
		if rng.Intn(2) == 0 { // nonces that are decimal prefixes / extensions of one another
			n2 = n1*10 + int64(rng.Intn(10))
		}
		checkPair(mkEv(ch, n1, ethAddrs[rng.Intn(3)]), mkEv(ch, n2, ethAddrs[rng.Intn(3)]))
	}
	// (C) end to end with the chain's own emitters: a real MsgBurn / MsgLock, the event it emits, the relayer's parser
	for i := 0; i < c.N(60, 1500); i++ {
		u := e.Users[rng.Intn(2)]
		burn := rng.Intn(2) == 0
		sym := []string{"ceth", "cusdc"}[rng.Intn(2)]
		if !burn {
			sym = []string{"rowan", "dash"}[rng.Intn(2)]
		}
		amount := RandAmount(rng, 22)
		if amount.Sign() == 0 {
			amount = big.NewInt(1)
		}
		eth := ethAddrs[rng.Intn(3)]
		ceth := big.NewInt(60000000000 * 393000)
		var msg sdk.Msg
		if burn {
			m := ethbridgetypes.NewMsgBurn(1, u.Addr, ethbridgetypes.NewEthereumAddress(eth), sdk.NewIntFromBigInt(amount), sym, sdk.NewIntFromBigInt(ceth))
			msg = &m
		} else {
			m := ethbridgetypes.NewMsgLock(1, u.Addr, ethbridgetypes.NewEthereumAddress(eth), sdk.NewIntFromBigInt(amount), sym, sdk.NewIntFromBigInt(ceth))
			msg = &m
		}
		// the receiver as a client may spell it in the message (ValidateBasic accepts what common.IsHexAddress accepts); the
		// chain's event repeats the spelling
		spelled := c16Spell(rng, eth)
		if spelled != eth {
			rep.Count("end-to-end.receiver-spelled-otherwise")
		}
		switch m := msg.(type) {
		case *ethbridgetypes.MsgBurn:
			m.EthereumReceiver = spelled
		case *ethbridgetypes.MsgLock:
			m.EthereumReceiver = spelled
		}
		res := e.Tx(u, msg)
		if res.Code != 0 {
			rep.Count("end-to-end.tx-failed")
			continue
		}
		// the relayer hands every event of type burn / lock to the parser, one by one (x/bank emits a "burn" event too)
		wantSym := sym
		if burn {
			wantSym = sym[1:]
		}
		translated := 0
		for _, ev := range res.Events {
			if ev.Type != map[bool]string{true: "burn", false: "lock"}[burn] {
				continue
			}
			var attrs []c16Attr
			for _, a := range ev.Attributes {
				attrs = append(attrs, c16Attr{string(a.Key), string(a.Value)})
			}
			cs := runBurnLock(tr, burn, attrs)
			monBurnLock(rep, cs)
			add(cs.enc(len(cases)), cs.desc())
			if !cs.OK {
				continue
			}
			translated++
			if string(cs.Out.CosmosSender) != u.Addr.String() || cs.Out.Amount.BigInt().Cmp(amount) != 0 || cs.Out.Symbol != wantSym ||
				!strings.EqualFold(cs.Out.EthereumReceiver.Hex(), eth) {
				d := cs.desc()
				d["message"] = map[string]interface{}{"burn": burn, "sender": u.Addr.String(), "symbol": sym, "amount": amount.String(), "ethereum_receiver": eth}
				rep.Violate("C16/end-to-end-mismatch", "the message prepared for Ethereum differs from the MsgBurn / MsgLock executed on Sifchain", d)
			}
		}
		if translated != 1 {
			rep.Violate("C16/end-to-end-count", fmt.Sprintf("%d messages for Ethereum prepared from one MsgBurn / MsgLock", translated),
				map[string]interface{}{"burn": burn, "sender": u.Addr.String(), "symbol": sym, "amount": amount.String(), "ethereum_receiver": eth})
		}
		rep.Count("end-to-end.translated")
		if rng.Intn(3) == 0 {
			e.NextBlock()
		}
	}
	// (D) batches: the relayer's real scanning loop (EthereumSub.Start -> handleEthereumEvent) run in a child process against
	// the fake Ethereum node of the C17 rig, several different events in one processed range; every claim of the transaction
	// that reaches the Sifchain client is matched, by nonce, against the event it stands for
	{
		workDir := filepath.Join(os.TempDir(), fmt.Sprintf("sifverif_c16_%d", os.Getpid()))
		defer os.RemoveAll(workDir)
		nsc := c.N(2, 6)
		scs := make([]loopScenario, nsc)
		for i := range scs {
			evs := map[int64][]int64{}
			nonce := int64(1 + rng.Intn(50))
			first := int64(2 + rng.Intn(20))
			for b := first; b < first+int64(2+rng.Intn(3)); b++ {
				for k := 0; k < 1+rng.Intn(3); k++ {
					evs[b] = append(evs[b], nonce)
					nonce++
				}
			}
			scs[i] = loopScenario{ID: 900 + i, Events: evs, Steps: []relayrig.Step{{Kind: "head", N: first - 1 + 50, Query: "ok", Submit: "none"}, // sets the cursor just below the events
				{Kind: "head", N: first + 50 + 6, Query: "ok", Submit: "none"}}}
		}
		var wg sync.WaitGroup
		for i := range scs {
			wg.Add(1)
			go func(i int) { defer wg.Done(); runLoopScenario(&scs[i], workDir) }(i)
		}
		wg.Wait()
		for _, sc := range scs {
			d0 := map[string]interface{}{"batch_events": fmt.Sprint(sc.Events), "trace": sc.Obs.Lines}
			if sc.Obs.Problem != "" {
				rep.Violate("C16/batch-rig-problem", "the relayer loop did not run to the end: "+sc.Obs.Problem, d0)
				continue
			}
			want := map[int64]bool{}
			for _, ns := range sc.Events {
				for _, n := range ns {
					want[n] = true
				}
			}
			got := map[int64]int{}
			for _, l := range sc.Obs.Lines {
				f := strings.Fields(l)
				if f[0] != "C" || len(f) != 11 {
					continue
				}
				var chainID, nonce int64
				var ct int32
				fmt.Sscan(f[1], &chainID)
				fmt.Sscan(f[2], &nonce)
				fmt.Sscan(f[8], &ct)
				amt, _ := new(big.Int).SetString(f[6], 10)
				got[nonce]++
				ef := relayrig.EventOf(nonce)
				ev := rtypes.EthereumEvent{EthereumChainID: big.NewInt(chainID), Nonce: big.NewInt(nonce), From: ef.Sender, Token: ef.Token, Symbol: ef.Symbol, Value: ef.Amount,
					To: []byte(ef.Recipient), ClaimType: ethbridgetypes.ClaimType_CLAIM_TYPE_LOCK, BridgeContractAddress: common.HexToAddress(f[9])}
				valAddr, _ := sdk.ValAddressFromBech32(f[10])
				cs := c16EvCase{Ev: ev, OK: true, Val: valAddr, Out: ethbridgetypes.EthBridgeClaim{EthereumChainId: chainID, BridgeContractAddress: f[9], Nonce: nonce, Symbol: f[5],
					TokenContractAddress: f[4], EthereumSender: f[3], CosmosReceiver: f[7], ValidatorAddress: f[10], Amount: sdk.NewIntFromBigInt(amt), ClaimType: ethbridgetypes.ClaimType(ct)}}
				monEthEvent(rep, cs)
				dd := cs.desc()
				dd["batch_events"] = fmt.Sprint(sc.Events)
				add(cs.enc(len(cases)), dd)
				rep.Count("batch.claims")
			}
			for n := range want {
				if got[n] != 1 {
					rep.Violate("C16/batch-claim-count", fmt.Sprintf("the event with nonce %d of a batch of %d events is stood for by %d claims of the submitted transaction", n, len(want), got[n]), d0)
				}
			}
			for n := range got {
				if !want[n] {
					rep.Violate("C16/batch-claim-without-event", fmt.Sprintf("a claim with nonce %d although the range holds no such event", n), d0)
				}
			}
			rep.Count("batch.scenarios")
		}
	}
	for i := 0; i*1000 < len(cases); i++ {
		end := (i + 1) * 1000
		if end > len(cases) {
			end = len(cases)
		}
		writeCases(c, rep, fmt.Sprintf("cases_C16_%d.v", i), "From Sif Require Import Check.Relayer.\n",
			fmt.Sprintf("Definition cases : list (list int) := %s.\nDefinition M := Eval vm_compute in (relayer_mismatches cases).\n", coqList(cases[i*1000:end])))
	}
	rep.Evaluations = len(cases)
	rep.DistinctNontrivial = len(seen)
	rep.ImplTraces = len(cases)
	rep.Rule = "one case = one call of the relayer's real translation functions: (A) BurnLockEventToCosmosMsg on attribute lists built from the five required attributes (sender, sequence, Ethereum receiver, symbol, amount) plus the chain's other attributes, shuffled; 1/8 each: one missing, one missing + another duplicated, a duplicate with another value, an invalid value; symbols with the prefix letter at every position and in both cases; (B) EthereumEventToEthBridgeClaim on events with random 160-bit senders, chain ids / nonces around 2^63 and 2^64, amounts up to 2^256-1, symbols of any case, invalid / foreign bech32 recipients; (C) real MsgBurn / MsgLock delivered to the app, the emitted event parsed by the relayer and compared with the message; (D) the real scanning loop in a child process (rig of C17) over ranges holding 2 to 12 different lock events, every claim of the broadcast transaction matched by nonce with its event and pushed through the same model comparison; non-trivial = distinct input"
	return rep
}
