package props

import (
	"bufio"
	"encoding/json"
	"fmt"
	"math/big"
	"os"
	"os/exec"
	"path/filepath"
	"sort"
	"strings"
	"sync"

	"sifverif/chain"
	"sifverif/env"
	"sifverif/relayrig"
	"sifverif/report"
)

type loopObs struct {
	Tokens  []int64 // observation tokens, see coq/Check/RelayerLoop.v
	Lines   []string
	Problem string
}

type loopScenario struct {
	ID     int
	Events map[int64][]int64
	Steps  []relayrig.Step
	Cosmos bool // the relayer's Cosmos listener runs next to the Ethereum one on the same LevelDB
	Obs    loopObs
}

func qCode(s string) int64 { return map[string]int64{"ok": 0, "fail": 1, "kill": 2}[s] }
func sCode(s string) int64 {
	return map[string]int64{"": 0, "none": 0, "kill_before_submit": 1, "kill_in_submit": 2, "kill_after_submit": 2}[s]
}

func (sc loopScenario) Enc() string {
	e := &env.Enc{}
	e.I(int64(sc.ID))
	var blocks []int64
	for b := range sc.Events {
		blocks = append(blocks, b)
	}
	sort.Slice(blocks, func(i, j int) bool { return blocks[i] < blocks[j] })
	e.Len(len(blocks))
	for _, b := range blocks {
		e.I(b).Len(len(sc.Events[b]))
		for _, n := range sc.Events[b] {
			e.I(n)
		}
	}
	e.Len(len(sc.Steps))
	for _, st := range sc.Steps {
		e.I(st.N).I(qCode(st.Query)).I(sCode(st.Submit))
	}
	e.Len(len(sc.Obs.Tokens))
	for _, t := range sc.Obs.Tokens {
		e.I(t)
	}
	return e.Coq()
}

func (sc loopScenario) JSON() map[string]interface{} {
	ev := map[string][]int64{}
	for b, l := range sc.Events {
		ev[fmt.Sprint(b)] = l
	}
	return map[string]interface{}{"events_by_block": ev, "schedule": sc.Steps, "trace": sc.Obs.Lines}
}

// genLoopScenario: a header schedule with gaps, repeats, bursts and an occasional older header; burn/lock events
// placed in blocks around the confirmation boundary; log-query failures; kills at the points of one iteration.
func genLoopScenario(rng *chain.Rng, id int, maxEventRanges int) loopScenario {
	sc := loopScenario{ID: id, Events: map[int64][]int64{}, Cosmos: id%2 == 0}
	head := int64(40 + rng.Intn(200))
	if rng.Intn(4) == 0 {
		head = int64(30 + rng.Intn(25)) // starts before block 50: negative ending blocks
	}
	nSteps := 6 + rng.Intn(6)
	eventRanges, kills := 0, 0
	lastEnding := int64(-1)
	for i := 0; i < nSteps; i++ {
		switch rng.Intn(10) {
		case 0:
			// repeated header
		case 1:
			head -= int64(1 + rng.Intn(3)) // an older header (reorganisation)
			if head < 1 {
				head = 1
			}
		case 2:
			head += int64(10 + rng.Intn(40)) // burst / gap
		default:
			head += int64(1 + rng.Intn(4))
		}
		st := relayrig.Step{Kind: "head", N: head, Query: "ok", Submit: "none"}
		ending := head - 50
		// events in the blocks this header newly confirms (and a few beyond the boundary, which must wait)
		if ending >= 0 && eventRanges < maxEventRanges && rng.Intn(3) == 0 {
			lo := lastEnding + 1
			if lo < ending-6 {
				lo = ending - 6
			}
			if lo < 0 {
				lo = 0
			}
			span := int(ending-lo+1) + 3 // up to 2 blocks past the confirmation boundary
			if span < 1 {
				span = 1
			}
			for k := 0; k < 1+rng.Intn(3); k++ {
				b := lo + int64(rng.Intn(span))
				if b < 0 {
					b = 0
				}
				n := b*100 + int64(len(sc.Events[b]))
				// one event in five is one the relayer cannot turn into a claim (relayrig.EventOf): a lock whose recipient
				// has a wrong bech32 checksum (nonce%100 in 50..74) or a lock of "eth" with a token address (75..99);
				// the bridge contract accepts both. The loop logs them and goes on with the next event.
				switch rng.Intn(10) {
				case 0:
					n += 50
				case 1:
					n += 75
				}
				sc.Events[b] = append(sc.Events[b], n)
			}
			eventRanges++
			if kills < 2 {
				switch rng.Intn(5) {
				case 0:
					st.Submit, kills = "kill_before_submit", kills+1
				case 1:
					st.Submit, kills = "kill_in_submit", kills+1
				case 2:
					st.Submit, kills = "kill_after_submit", kills+1
				}
			}
		}
		switch rng.Intn(12) {
		case 0:
			st.Query = "fail"
		case 1:
			if kills < 2 && ending >= 0 {
				st.Query, kills = "kill", kills+1
			}
		}
		if ending > lastEnding && st.Query == "ok" {
			lastEnding = ending
		}
		sc.Steps = append(sc.Steps, st)
	}
	return sc
}

// runLoopScenario plays the scenario on the real loop, one child process per segment between kills.
func runLoopScenario(sc *loopScenario, workDir string) {
	dir := filepath.Join(workDir, fmt.Sprintf("sc%d", sc.ID))
	_ = os.RemoveAll(dir)
	if err := os.MkdirAll(dir, 0o755); err != nil {
		sc.Obs.Problem = err.Error()
		return
	}
	defer os.RemoveAll(dir)
	trace := filepath.Join(dir, "trace.txt")
	start := 0
	for seg := 0; seg < 8 && start < len(sc.Steps); seg++ {
		rs := relayrig.Scenario{Events: sc.Events, Steps: sc.Steps, DBDir: filepath.Join(dir, "relayerdb"), Trace: trace, StartAt: start, Cosmos: sc.Cosmos}
		bz, _ := json.Marshal(rs)
		scf := filepath.Join(dir, fmt.Sprintf("segment%d.json", seg))
		_ = os.WriteFile(scf, bz, 0o644)
		cmd := exec.Command(os.Args[0], "relay-segment", scf)
		out, err := cmd.CombinedOutput()
		code := 0
		if err != nil {
			if ee, ok := err.(*exec.ExitError); ok {
				code = ee.ExitCode()
			} else {
				sc.Obs.Problem = err.Error()
				return
			}
		}
		lines := readLines(trace)
		if code == 0 {
			break
		}
		if code != 137 {
			sc.Obs.Problem = fmt.Sprintf("child exited with code %d: %s", code, trunc(string(out), 600))
			sc.Obs.Lines = lines
			return
		}
		// killed: which header was it working on, and what does LevelDB hold now
		last := -1
		for _, l := range lines {
			var i int
			var n int64
			if _, err := fmt.Sscanf(l, "H %d %d", &i, &n); err == nil {
				last = i
			}
		}
		f, _ := os.OpenFile(trace, os.O_APPEND|os.O_WRONLY, 0o644)
		fmt.Fprintf(f, "K %d\n", relayrig.ReadCursor(rs.DBDir))
		f.Close()
		start = last + 1
		if start >= len(sc.Steps) { // killed on the last header: the end-of-run cursor is what LevelDB holds
			f, _ := os.OpenFile(trace, os.O_APPEND|os.O_WRONLY, 0o644)
			fmt.Fprintf(f, "E %d\n", relayrig.ReadCursor(rs.DBDir))
			f.Close()
		}
	}
	sc.Obs.Lines = readLines(trace)
	for _, l := range sc.Obs.Lines {
		f := strings.Fields(l)
		switch f[0] {
		case "Q":
			from, _ := new(big.Int).SetString(f[1], 10)
			to, _ := new(big.Int).SetString(f[2], 10)
			sc.Obs.Tokens = append(sc.Obs.Tokens, 1, from.Int64(), to.Int64(), map[string]int64{"ok": 0, "fail": 1, "killed": 2}[f[3]])
		case "S":
			var n int64
			fmt.Sscan(f[1], &n)
			sc.Obs.Tokens = append(sc.Obs.Tokens, 2, n)
		case "D":
			var c int64
			fmt.Sscan(f[2], &c)
			sc.Obs.Tokens = append(sc.Obs.Tokens, 3, c)
		case "K", "E":
			var c int64
			fmt.Sscan(f[1], &c)
			sc.Obs.Tokens = append(sc.Obs.Tokens, 3, c)
		case "T":
			sc.Obs.Problem = "timeout: " + l
		}
	}
}

func readLines(p string) []string {
	f, err := os.Open(p)
	if err != nil {
		return nil
	}
	defer f.Close()
	var out []string
	s := bufio.NewScanner(f)
	for s.Scan() {
		if strings.TrimSpace(s.Text()) != "" {
			out = append(out, s.Text())
		}
	}
	return out
}

// MonLoop — the clauses of C17 on the observed trace, independently of the model.
func MonLoop(rep *report.Report, sc loopScenario) {
	if sc.Obs.Problem != "" {
		rep.Violate("C17/rig-problem", sc.Obs.Problem, sc.JSON())
		return
	}
	maxHead := int64(-1)
	cursor := int64(0) // persisted cursor as last observed
	var submittedAfterKill map[int64]bool
	submitted := map[int64]int{}
	lastKillCursor := int64(-1)
	coveredTo := int64(-1) // highest block covered by a successful query + submission since the last kill
	pendingFrom, pendingTo := int64(-1), int64(-2)
	for _, l := range sc.Obs.Lines {
		f := strings.Fields(l)
		switch f[0] {
		case "H":
			var i int
			var n int64
			fmt.Sscanf(l, "H %d %d", &i, &n)
			if n > maxHead {
				maxHead = n
			}
		case "Q":
			var from, to int64
			fmt.Sscan(f[1], &from)
			fmt.Sscan(f[2], &to)
			// contiguity: a range starts at the persisted cursor (or, with no cursor yet, at its own end)
			if cursor != 0 && from != cursor {
				rep.Violate("C17/range-not-at-cursor", fmt.Sprintf("log query [%d,%d] while the persisted cursor is %d", from, to, cursor), sc.JSON())
			}
			if to != maxHead-50 && to > maxHead-50 {
				rep.Violate("C17/unconfirmed-range", fmt.Sprintf("log query up to %d, newest header %d", to, maxHead), sc.JSON())
			}
			if f[3] == "ok" {
				pendingFrom, pendingTo = from, to
			} else {
				pendingFrom, pendingTo = -1, -2
			}
		case "S":
			var n int64
			fmt.Sscan(f[1], &n)
			b := n / 100
			submitted[n]++
			if submittedAfterKill != nil {
				submittedAfterKill[n] = true
			}
			if b > maxHead-50 {
				rep.Violate("C17/unconfirmed-claim", fmt.Sprintf("claim for an event of block %d, newest header %d", b, maxHead), sc.JSON())
			}
			found := false
			for _, x := range sc.Events[b] {
				if x == n && relayrig.Translatable(n) {
					found = true
				}
			}
			if !found {
				rep.Violate("C17/unknown-claim", fmt.Sprintf("claim with nonce %d matches no event", n), sc.JSON())
			}
		case "D", "K", "E":
			var c int64
			if f[0] == "D" {
				fmt.Sscan(f[2], &c)
			} else {
				fmt.Sscan(f[1], &c)
			}
			if c != cursor {
				// the cursor moved: only to to+1 of the range just handled, whose events must all have been submitted
				if pendingTo < pendingFrom-1 && pendingFrom == -1 {
					rep.Violate("C17/cursor-moved-without-range", fmt.Sprintf("cursor %d -> %d without a successful log query", cursor, c), sc.JSON())
				} else if c != pendingTo+1 {
					rep.Violate("C17/cursor-not-range-end", fmt.Sprintf("cursor %d -> %d after range [%d,%d]", cursor, c, pendingFrom, pendingTo), sc.JSON())
				} else {
					for b := pendingFrom; b <= pendingTo; b++ {
						for _, n := range sc.Events[b] {
							if !relayrig.Translatable(n) {
								continue
							}
							if submitted[n] == 0 {
								rep.Violate("C17/cursor-before-submission", fmt.Sprintf("cursor written as %d but event %d of block %d was never submitted", c, n, b), sc.JSON())
							}
							if submittedAfterKill != nil && b >= lastKillCursor && !submittedAfterKill[n] && lastKillCursor > 0 {
								rep.Violate("C17/not-resubmitted-after-restart", fmt.Sprintf("event %d of block %d (>= cursor %d at the kill) was not submitted again after the restart", n, b, lastKillCursor), sc.JSON())
							}
						}
					}
					if pendingTo > coveredTo {
						coveredTo = pendingTo
					}
				}
				cursor = c
			}
			if f[0] == "K" {
				lastKillCursor = c
				submittedAfterKill = map[int64]bool{}
				pendingFrom, pendingTo = -1, -2
			}
		}
	}
}

// C17 — the relayer scans contiguously after 50 confirmations and resumes without gaps.
func C17(c Ctx) *report.Report {
	rep := report.New("C17", c.Seed, c.Tier)
	rng := chain.NewRng(c.Seed + 17)
	n := c.N(14, 240)
	workDir := filepath.Join(os.TempDir(), fmt.Sprintf("sifverif_c17_%d", os.Getpid()))
	defer os.RemoveAll(workDir)
	scs := make([]loopScenario, n)
	for i := range scs {
		scs[i] = genLoopScenario(rng, i+1, 2)
	}
	// corpus: a kill after the claims were broadcast and before the cursor is written, then a restart
	scs[0] = loopScenario{ID: 1, Events: map[int64][]int64{105: {10500}, 108: {10800, 10801}, 131: {13100}},
		Steps: []relayrig.Step{{Kind: "head", N: 150, Query: "ok", Submit: "none"}, {Kind: "head", N: 161, Query: "ok", Submit: "kill_after_submit"},
			{Kind: "head", N: 163, Query: "ok", Submit: "none"}, {Kind: "head", N: 190, Query: "ok", Submit: "none"}}}
	var wg sync.WaitGroup
	sem := make(chan struct{}, 14)
	for i := range scs {
		wg.Add(1)
		sem <- struct{}{}
		go func(i int) {
			defer wg.Done()
			defer func() { <-sem }()
			runLoopScenario(&scs[i], workDir)
		}(i)
	}
	wg.Wait()
	var items []string
	kills, ranges, claims := 0, 0, 0
	for _, sc := range scs {
		MonLoop(rep, sc)
		items = append(items, sc.Enc())
		rep.CaseIndex[itoa(sc.ID)] = sc.JSON()
		for _, l := range sc.Obs.Lines {
			switch l[0] {
			case 'K':
				kills++
				rep.Count("loop.kill")
			case 'Q':
				ranges++
				rep.Count("loop.query." + strings.Fields(l)[3])
			case 'S':
				claims++
				rep.Count("loop.claim")
			}
		}
		for _, st := range sc.Steps {
			if st.Submit != "none" && st.Submit != "" {
				rep.Count("schedule." + st.Submit)
			}
		}
		if len(rep.Samples) < 2 {
			rep.Sample(sc.JSON())
		}
	}
	rep.ImplTraces = len(scs)
	rep.Evaluations = len(scs)
	rep.DistinctNontrivial = len(scs)
	rep.Rule = "one case = one scenario played on the real EthereumSub.Start loop in child processes against a fake Ethereum websocket node (go-ethereum rpc.Server: newHeads subscription, eth_getLogs, eth_call, net_version) and a fake Tendermint client decoding the broadcast claims, with a real LevelDB: " +
		"6-11 headers with gaps, bursts, repeats and older headers, starting below or above block 50; lock events in blocks around the confirmation boundary; eth_getLogs failures; the process killed (os.Exit without clean-up) on receipt of a log query, " +
		"when the broadcast arrives, after the claims are recorded, or during the 10 s sleep before the cursor is written, then restarted on the same LevelDB; every log query, every submitted claim and the LevelDB cursor after every step are compared with the model"
	writeCases(c, rep, "cases_C17_0.v", "From Sif Require Import Check.RelayerLoop.\n",
		fmt.Sprintf("Definition cases : list (list int) := %s.\nDefinition M := Eval vm_compute in (loop_mismatches cases).\n", coqList(items)))
	_ = kills
	_ = ranges
	_ = claims
	return rep
}
