package props

import (
	"fmt"
	"math/big"

	"sifverif/chain"
	"sifverif/env"
	"sifverif/report"
)

func rat(x *big.Int) *big.Rat { return new(big.Rat).SetInt(x) }

// tolerance of the property: n providers * (1 + total/1e18)
func tolN(n int64, total *big.Rat) *big.Rat {
	t := new(big.Rat).Quo(total, rat(bigE(18)))
	t.Add(t, big.NewRat(1, 1))
	return t.Mul(t, big.NewRat(n, 1))
}

func absRat(x *big.Rat) *big.Rat { return new(big.Rat).Abs(x) }

func lppdActive(s env.ClpState) (*big.Int, bool) {
	h := s.Height
	for _, p := range s.Lppd {
		if h >= int64(p.Start) && h <= int64(p.End) {
			if p.Mod == 0 {
				return nil, false
			}
			if (h-int64(p.Start))%int64(p.Mod) == 0 {
				return p.Rate, true
			}
			return nil, false
		}
	}
	return nil, false
}

func rewardActive(s env.ClpState) (*env.RewardPeriod, bool) {
	h := uint64(s.Height)
	for i := range s.Rewards {
		p := &s.Rewards[i]
		if h >= p.Start && h <= p.End {
			if p.Alloc.Sign() == 0 {
				return nil, false
			}
			md := p.Mod
			if md == 0 {
				md = 1
			}
			return p, (h-p.Start)%md == 0
		}
	}
	return nil, false
}

func rowanDeltaUsers(pre, post env.ClpState) map[int64]*big.Int {
	out := map[int64]*big.Int{}
	ids := map[int64]bool{}
	for _, b := range pre.Balances {
		ids[b.Acct] = true
	}
	for _, b := range post.Balances {
		ids[b.Acct] = true
	}
	for id := range ids {
		if id < 10 {
			continue
		}
		out[id] = new(big.Int).Sub(balOf(post, id, 0), balOf(pre, id, 0))
	}
	return out
}

// MonPayouts — C18 on the observed EndBlock (LPPD, depth rewards) and epoch BeginBlock transitions.
func MonPayouts(rep *report.Report, h History) {
	for _, s := range h.Steps {
		switch {
		case s.Kind == 2 && s.OK:
			rate, lppd := lppdActive(s.Pre)
			period, rdist := rewardActive(s.Pre)
			if lppd && (period == nil || !rdist) {
				monLppd(rep, h, s, rate)
			}
			if period != nil && rdist && !lppd {
				monDepthRewards(rep, h, s, period)
			}
		case s.Kind == 3 && s.OK && s.Epoch:
			monBucket(rep, h, s)
		}
	}
}

// unitsConsistent: the pool's units equal the sum of its providers' units (otherwise "share of the pool's
// units" is not defined; such states only arise through finding F-14, which C02 reports)
func unitsConsistent(s env.ClpState) bool {
	for _, p := range s.Pools {
		t := new(big.Int)
		for _, l := range s.LPs {
			if l.Asset == p.Asset {
				t.Add(t, l.Units)
			}
		}
		if t.Cmp(p.Units) != 0 {
			return false
		}
	}
	return true
}

func monLppd(rep *report.Report, h History, s Step, rate *big.Int) {
	if !unitsConsistent(s.Pre) {
		rep.Count("c18.skipped.inconsistent-units(F-14)")
		return
	}
	rep.Count("c18.lppd.runs")
	expected := map[int64]*big.Rat{}
	tol := map[int64]*big.Rat{}
	paidTotal := new(big.Int)
	takenTotal := new(big.Int)
	for _, p := range s.Pre.Pools {
		post := poolOf(s.Post, p.Asset)
		if post == nil {
			continue
		}
		taken := new(big.Int).Sub(p.NB, post.NB)
		takenTotal.Add(takenTotal, taken)
		exact := new(big.Rat).Mul(new(big.Rat).SetFrac(rate, bigE(18)), rat(p.NB))
		// the pool gives up at most round(rate * balance)
		lim := new(big.Rat).Add(exact, big.NewRat(1, 2))
		if rat(taken).Cmp(lim) > 0 || taken.Sign() < 0 {
			rep.Violate("C18/lppd/pool-take", fmt.Sprintf("pool %d gave up %s, block rate * balance = %s", p.Asset, taken, exact.FloatString(3)), replayOf(h, s.StepNo))
		}
		n := nLPs(s.Pre, p.Asset)
		for _, l := range s.Pre.LPs {
			if l.Asset != p.Asset || p.Units.Sign() == 0 {
				continue
			}
			share := new(big.Rat).Mul(exact, new(big.Rat).SetFrac(l.Units, p.Units))
			if expected[l.Addr] == nil {
				expected[l.Addr], tol[l.Addr] = new(big.Rat), new(big.Rat)
			}
			expected[l.Addr].Add(expected[l.Addr], share)
			tol[l.Addr].Add(tol[l.Addr], tolN(n, exact))
		}
	}
	for id, d := range rowanDeltaUsers(s.Pre, s.Post) {
		paidTotal.Add(paidTotal, d)
		exp, ok := expected[id]
		if !ok {
			if d.Sign() != 0 {
				rep.Violate("C18/lppd/outsider-paid", fmt.Sprintf("account %d is no provider but received %s", id, d), replayOf(h, s.StepNo))
			}
			continue
		}
		if absRat(new(big.Rat).Sub(rat(d), exp)).Cmp(tol[id]) > 0 {
			rep.Violate("C18/lppd/share", fmt.Sprintf("provider %d received %s, pro-rata share %s (tolerance %s)", id, d, exp.FloatString(3), tol[id].FloatString(3)), replayOf(h, s.StepNo))
		}
	}
	if paidTotal.Cmp(takenTotal) != 0 {
		rep.Violate("C18/lppd/paid-ne-taken", fmt.Sprintf("providers received %s, pools gave up %s", paidTotal, takenTotal), replayOf(h, s.StepNo))
	}
}

func multOf(p *env.RewardPeriod, asset int64) *big.Int {
	for _, m := range p.Mults {
		if m[0].Int64() == asset {
			return m[1]
		}
	}
	return p.Default
}

func monDepthRewards(rep *report.Report, h History, s Step, p *env.RewardPeriod) {
	if !unitsConsistent(s.Pre) {
		rep.Count("c18.skipped.inconsistent-units(F-14)")
		return
	}
	rep.Count("c18.rewards.runs")
	length := new(big.Int).SetUint64(p.End - p.Start + 1)
	B := new(big.Int).Add(s.Pre.Accu, new(big.Int).Div(p.Alloc, length))
	if B.Sign() == 0 {
		return
	}
	W := new(big.Rat)
	for _, pl := range s.Pre.Pools {
		W.Add(W, new(big.Rat).Mul(rat(pl.NB), new(big.Rat).SetFrac(multOf(p, pl.Asset), bigE(18))))
	}
	if W.Sign() == 0 {
		return
	}
	npools := int64(len(s.Pre.Pools))
	expected := map[int64]*big.Rat{}
	tol := map[int64]*big.Rat{}
	for _, pl := range s.Pre.Pools {
		w := new(big.Rat).Mul(rat(pl.NB), new(big.Rat).SetFrac(multOf(p, pl.Asset), bigE(18)))
		exact := new(big.Rat).Mul(rat(B), new(big.Rat).Quo(w, W))
		ptol := tolN(npools, rat(B))
		post := poolOf(s.Post, pl.Asset)
		if post == nil {
			continue
		}
		n := nLPs(s.Pre, pl.Asset)
		if !p.Distribute || n == 0 {
			got := new(big.Int).Sub(post.NB, pl.NB)
			// later pools can be cut by what remains; never more than the share
			if new(big.Rat).Sub(rat(got), exact).Cmp(ptol) > 0 {
				rep.Violate("C18/rewards/pool-split", fmt.Sprintf("pool %d received %s, weighted share %s", pl.Asset, got, exact.FloatString(3)), replayOf(h, s.StepNo))
			}
			// ... and not less (the shares add up to at most the block distribution, so the cap never bites
			// by more than the rounding of the pools before it)
			if new(big.Rat).Sub(exact, rat(got)).Cmp(ptol) > 0 {
				rep.Violate("C18/rewards/pool-split-short", fmt.Sprintf("pool %d received %s, weighted share %s", pl.Asset, got, exact.FloatString(3)), replayOf(h, s.StepNo))
			}
			continue
		}
		for _, l := range s.Pre.LPs {
			if l.Asset != pl.Asset || pl.Units.Sign() == 0 {
				continue
			}
			share := new(big.Rat).Mul(exact, new(big.Rat).SetFrac(l.Units, pl.Units))
			if expected[l.Addr] == nil {
				expected[l.Addr], tol[l.Addr] = new(big.Rat), new(big.Rat)
			}
			expected[l.Addr].Add(expected[l.Addr], share)
			tol[l.Addr].Add(tol[l.Addr], new(big.Rat).Add(ptol, tolN(n, exact)))
		}
	}
	for id, d := range rowanDeltaUsers(s.Pre, s.Post) {
		exp, ok := expected[id]
		if !ok {
			if d.Sign() != 0 {
				rep.Violate("C18/rewards/outsider-paid", fmt.Sprintf("account %d is no provider but received %s", id, d), replayOf(h, s.StepNo))
			}
			continue
		}
		if absRat(new(big.Rat).Sub(rat(d), exp)).Cmp(tol[id]) > 0 {
			rep.Violate("C18/rewards/share", fmt.Sprintf("provider %d received %s, pro-rata share %s (tolerance %s)", id, d, exp.FloatString(3), tol[id].FloatString(3)), replayOf(h, s.StepNo))
		}
	}
}

func monBucket(rep *report.Report, h History, s Step) {
	nd := int64(len(h.Env.DenomID))
	for d := int64(0); d < nd; d++ {
		var bucket *big.Int
		for _, b := range s.Pre.Buckets {
			if b.Denom == d {
				bucket = b.Amt
			}
		}
		if bucket == nil {
			continue
		}
		var elig []env.LP
		total := new(big.Int)
		for _, l := range s.Pre.LPs {
			if l.Asset == d && l.Last < s.Pre.Height-int64(s.Pre.Params.RewardsLock) {
				elig = append(elig, l)
				total.Add(total, l.Units)
			}
		}
		if len(elig) == 0 || total.Sign() == 0 {
			continue
		}
		rep.Count("c18.bucket.runs")
		n := int64(len(elig))
		isElig := map[int64]*big.Int{}
		for _, l := range elig {
			isElig[l.Addr] = l.Units
		}
		if s.Pre.Params.RewardsWallet {
			paid := new(big.Int)
			for id := range h.Env.AcctOf {
				if id < 10 {
					continue
				}
				delta := new(big.Int).Sub(balOf(s.Post, id, d), balOf(s.Pre, id, d))
				paid.Add(paid, delta)
				u, ok := isElig[id]
				if !ok {
					if delta.Sign() != 0 {
						rep.Violate("C18/bucket/outsider-paid", fmt.Sprintf("account %d is not an eligible provider of asset %d but received %s", id, d, delta), replayOf(h, s.StepNo))
					}
					continue
				}
				exp := new(big.Rat).Mul(rat(bucket), new(big.Rat).SetFrac(u, total))
				if new(big.Rat).Sub(rat(delta), exp).Cmp(tolN(n, rat(bucket))) > 0 {
					rep.Violate("C18/bucket/share", fmt.Sprintf("provider %d received %s of asset %d, share of the bucket %s", id, delta, d, exp.FloatString(3)), replayOf(h, s.StepNo))
				}
			}
			if paid.Cmp(bucket) > 0 {
				rep.Violate("C18/bucket/overpaid", fmt.Sprintf("asset %d: providers were paid %s out of a bucket of %s", d, paid, bucket), replayOf(h, s.StepNo))
			}
		} else {
			pre, post := poolOf(s.Pre, d), poolOf(s.Post, d)
			if pre != nil && post != nil {
				added := new(big.Int).Sub(post.EB, pre.EB)
				if added.Cmp(bucket) > 0 {
					rep.Violate("C18/bucket/overpaid", fmt.Sprintf("asset %d: %s re-invested out of a bucket of %s", d, added, bucket), replayOf(h, s.StepNo))
				}
			}
		}
	}
}

// C18 — payouts pro rata.
func C18(c Ctx) *report.Report {
	rep := report.New("C18", c.Seed, c.Tier)
	rng := chain.NewRng(c.Seed + 18)
	next := 0
	hs := []History{ScriptF2(&next), ScriptReinvestDry(&next), ScriptReinvestSix(&next)} // corpus first
	o := clpOpts(c, 36, 1400)
	o.Steps = 30
	o.Weights = map[int]int{1: 3, 2: 8, 3: 2, 4: 2, 5: 3, 6: 0, 7: 0, 8: 0, 9: 4}
	o.Locks, o.Whitelist = false, false
	o.BlockEach = 2
	hs = append(hs, RunClpHistories(c, rep, rng, o, &next)...)
	for _, h := range hs {
		MonPayouts(rep, h)
		monUnitsBut14(rep, h) // units must be what the providers hold (finding F-14 is C02's, known there)
		if len(rep.Samples) < 2 && len(h.Steps) > 3 {
			rep.Sample(replayOf(h, 3))
		}
	}
	cn := 0
	calc := CalcCases(rep, rng, []int{11}, c.N(500, 20000), &cn)
	for i := range calc {
		calc[i].ID += 1000000
		rep.CaseIndex[itoa(calc[i].ID)] = calc[i].JSON()
	}
	rep.Evaluations = next + len(calc)
	rep.DistinctNontrivial = countNontrivial(hs) + len(calc)
	rep.Rule = histRule + "; add-heavy mix so that pools have several providers, LPPD periods (rates 0..1 incl. 0, 1e-18, 0.5, 1), reward periods (distribute on/off, multipliers 0..10, mod 0..3), hour-epoch bucket payouts to wallets or re-invested, a block boundary every 2 messages; monitors compare every account's balance change across EndBlock / epoch BeginBlock with exact rational shares"
	writeHistFiles(c, rep, "cases_C18", hs, 450)
	writeCalcFiles(c, rep, "cases_C18_calc", calc, 800)
	return rep
}

// monUnitsBut14: the units monitor of C02 inside another property's check. The empty-side branch of CalculatePoolUnits
// (finding F-14, recorded as known under C02, reachable after a provider distribution with block rate 1) is not reported
// again under this property; every other units violation is.
func monUnitsBut14(rep *report.Report, h History) {
	n := len(rep.Violations)
	MonUnits(rep, h)
	kept := rep.Violations[:n]
	for _, v := range rep.Violations[n:] {
		if v.Sig == "C02/units-mismatch/add-to-one-sided-pool" {
			rep.Count("known-under-C02.F-14.add-to-one-sided-pool")
			continue
		}
		kept = append(kept, v)
	}
	rep.Violations = kept
}
