package props

import (
	"fmt"
	"time"

	sifapp "github.com/Sifchain/sifnode/app"
	"math/big"
	"sort"
	"strings"

	clptypes "github.com/Sifchain/sifnode/x/clp/types"
	disptypes "github.com/Sifchain/sifnode/x/dispensation/types"
	"github.com/cosmos/cosmos-sdk/crypto/keys/ed25519"
	sdk "github.com/cosmos/cosmos-sdk/types"
	"github.com/cosmos/cosmos-sdk/x/authz"
	banktypes "github.com/cosmos/cosmos-sdk/x/bank/types"
	govtypes "github.com/cosmos/cosmos-sdk/x/gov/types"
	stakingtypes "github.com/cosmos/cosmos-sdk/x/staking/types"
	transfertypes "github.com/cosmos/ibc-go/v4/modules/apps/transfer/types"
	clienttypes "github.com/cosmos/ibc-go/v4/modules/core/02-client/types"

	"sifverif/chain"
	"sifverif/env"
	"sifverif/report"
)

// node of the message tree as handed to the model
type anteNode struct {
	URL   string
	Kind  int // 0 none 1 create 2 edit 3 delegate 4 redelegate
	Has   bool
	Found bool
	Same  bool
	A, B  *big.Int
	Inner []anteNode
	Exec  bool
}

func (n anteNode) enc(e *env.Enc, urlID map[string]int64) {
	if n.Exec {
		e.I(1).Len(len(n.Inner))
		for _, c := range n.Inner {
			c.enc(e, urlID)
		}
		return
	}
	e.I(0).I(urlID[n.URL]).I(int64(n.Kind))
	switch n.Kind {
	case 1:
		e.Z(n.A)
	case 2:
		e.B(n.Has).Z(n.A)
	case 3:
		e.B(n.Found).Z(n.A).Z(n.B)
	case 4:
		e.B(n.Found).Z(n.A).Z(n.B).B(n.Same)
	}
}

func (n anteNode) json() interface{} {
	if n.Exec {
		var in []interface{}
		for _, c := range n.Inner {
			in = append(in, c.json())
		}
		return map[string]interface{}{"MsgExec": in}
	}
	m := map[string]interface{}{"type": n.URL}
	switch n.Kind {
	case 1, 2:
		m["commission"] = sdk.NewDecFromBigIntWithPrec(n.A, 18).String()
	case 3, 4:
		m["validator_tokens"], m["amount"] = n.A.String(), n.B.String()
	}
	return m
}

var floorHigh = new(big.Int).Set(bigE(17))
var floorLow = new(big.Int).Set(bigE(16))

// specFloor: the property's own statement — highest floor among all leaves
func specFloor(n anteNode, submitFee *big.Int) *big.Int {
	if n.Exec {
		m := new(big.Int)
		for _, c := range n.Inner {
			if f := specFloor(c, submitFee); f.Cmp(m) > 0 {
				m = f
			}
		}
		return m
	}
	u := strings.ToLower(n.URL)
	switch {
	case strings.HasSuffix(u, ".msgsend") || strings.HasSuffix(u, ".msgmultisend") || strings.HasSuffix(u, ".msgaddliquidity") || strings.HasSuffix(u, ".msgremoveliquidity") ||
		strings.HasSuffix(u, ".msgremoveliquidityunits") || strings.HasSuffix(u, ".msgswap") || strings.HasSuffix(u, ".msgcreateuserclaim"):
		return floorHigh
	case strings.HasSuffix(u, "transfer.v1.msgtransfer"):
		return floorLow
	case strings.HasSuffix(u, ".msgsubmitproposal"):
		return submitFee
	}
	return new(big.Int)
}

func leaves(n anteNode) []anteNode {
	if !n.Exec {
		return []anteNode{n}
	}
	var out []anteNode
	for _, c := range n.Inner {
		out = append(out, leaves(c)...)
	}
	return out
}

// c19Rate: a commission rate: 4.0% .. 6.0% in steps of 0.1%, or one of the ends of the scale: exactly 0, one unit of the
// eighteenth decimal, 1%, one unit below 5%, 20% (the maximum rate of the messages built here).
func c19Rate(rng *chain.Rng) sdk.Dec {
	switch rng.Intn(12) {
	case 0:
		return sdk.ZeroDec()
	case 1:
		return sdk.NewDecWithPrec(1, 18)
	case 2:
		return sdk.NewDecWithPrec(1, 2)
	case 3:
		return sdk.NewDecWithPrec(5, 2).Sub(sdk.NewDecWithPrec(1, 18))
	case 4:
		return sdk.NewDecWithPrec(20, 2)
	}
	return sdk.NewDecWithPrec(int64(40+rng.Intn(21)), 3)
}

// C19 — fee floors and validator rules, however wrapped.
func C19(c Ctx) *report.Report {
	rep := report.New("C19", c.Seed, c.Tier)
	rng := chain.NewRng(c.Seed + 19)
	// a chain with validators so that delegations have real stake distributions
	powers := []int64{40, 30, 20, 5, 3, 2}
	wl := []bool{true, true, true, true, true, true}
	e := env.NewBridge(powers, wl, 3)
	submitFee := new(big.Int).Set(e.App.AdminKeeper.GetParams(e.Ctx()).SubmitProposalFee.BigInt())
	urlID := map[string]int64{}
	var urls []string
	for _, u := range sifapp.MakeTestEncodingConfig().InterfaceRegistry.ListImplementations("cosmos.base.v1beta1.Msg") {
		urls = append(urls, u)
	}
	sort.Strings(urls)
	for i, u := range urls {
		urlID[u] = int64(i + 1)
	}
	var cases []string
	id := 0
	user := e.Users[0]
	other := e.Users[1]
	bond := e.BondDenom
	total := func() *big.Int {
		ctx := e.Ctx()
		b := e.App.BankKeeper.GetBalance(ctx, e.App.StakingKeeper.GetBondedPool(ctx).GetAddress(), bond).Amount
		n := e.App.BankKeeper.GetBalance(ctx, e.App.StakingKeeper.GetNotBondedPool(ctx).GetAddress(), bond).Amount
		return new(big.Int).Add(b.BigInt(), n.BigInt())
	}
	valTokens := func(i int) *big.Int {
		v, _ := e.App.StakingKeeper.GetValidator(e.Ctx(), e.ValAddr(i))
		return new(big.Int).Set(v.Tokens.BigInt())
	}
	newValIdx := 100
	mkLeaf := func() (sdk.Msg, anteNode) {
		switch rng.Intn(12) {
		case 0, 1:
			m := banktypes.NewMsgSend(user.Addr, other.Addr, sdk.NewCoins(sdk.NewCoin("rowan", sdk.NewInt(int64(1+rng.Intn(1000))))))
			return m, anteNode{URL: sdk.MsgTypeURL(m)}
		case 2:
			m := clptypes.NewMsgSwap(user.Addr, clptypes.NewAsset("rowan"), clptypes.NewAsset("ceth"), sdk.NewUint(1000), sdk.NewUint(0))
			return &m, anteNode{URL: sdk.MsgTypeURL(&m)}
		case 3:
			m := clptypes.NewMsgAddLiquidity(user.Addr, clptypes.NewAsset("ceth"), sdk.NewUint(1000), sdk.NewUint(1000))
			return &m, anteNode{URL: sdk.MsgTypeURL(&m)}
		case 4:
			m := clptypes.NewMsgRemoveLiquidityUnits(user.Addr, clptypes.NewAsset("ceth"), sdk.NewUint(10))
			return &m, anteNode{URL: sdk.MsgTypeURL(&m)}
		case 5:
			m := disptypes.NewMsgCreateUserClaim(user.Addr, disptypes.DistributionType_DISTRIBUTION_TYPE_VALIDATOR_SUBSIDY)
			return &m, anteNode{URL: sdk.MsgTypeURL(&m)}
		case 6:
			m := transfertypes.NewMsgTransfer("transfer", "channel-0", sdk.NewCoin("rowan", sdk.NewInt(5)), user.Addr.String(), "cosmos1x", clienttypes.NewHeight(0, 100000), 0)
			return m, anteNode{URL: sdk.MsgTypeURL(m)}
		case 7:
			content := govtypes.NewTextProposal("t", "d")
			m, err := govtypes.NewMsgSubmitProposal(content, sdk.NewCoins(sdk.NewCoin("rowan", sdk.NewInt(1))), user.Addr)
			if err != nil {
				panic(err)
			}
			return m, anteNode{URL: sdk.MsgTypeURL(m)}
		case 8: // create validator with commission around 5%
			newValIdx++
			pk := ed25519.GenPrivKeyFromSecret([]byte(fmt.Sprintf("c19cons%d", newValIdx))).PubKey()
			rate := c19Rate(rng)
			m, err := stakingtypes.NewMsgCreateValidator(sdk.ValAddress(user.Addr), pk, sdk.NewCoin(bond, sdk.NewInt(1000000)), stakingtypes.NewDescription("n", "", "", "", ""),
				stakingtypes.NewCommissionRates(rate, sdk.NewDecWithPrec(20, 2), sdk.NewDecWithPrec(1, 2)), sdk.OneInt())
			if err != nil {
				panic(err)
			}
			return m, anteNode{URL: sdk.MsgTypeURL(m), Kind: 1, A: new(big.Int).Set(rate.BigInt())}
		case 9: // edit validator (the signer user is validator 5's operator in half of the cases below)
			rate := c19Rate(rng)
			var rp *sdk.Dec
			has := rng.Intn(4) != 0
			if has {
				rp = &rate
			}
			m := stakingtypes.NewMsgEditValidator(sdk.ValAddress(user.Addr), stakingtypes.NewDescription("e", "", "", "", ""), rp, nil)
			return m, anteNode{URL: sdk.MsgTypeURL(m), Kind: 2, Has: has, A: new(big.Int).Set(rate.BigInt())}
		case 10: // delegate around the 6.6% boundary of validator 3/4/5
			vi := 3 + rng.Intn(3)
			vt, tot := valTokens(vi), total()
			// amount x with (vt+x)/(tot+x) = 0.066  ->  x = (0.066 tot - vt)/0.934
			x := new(big.Int).Sub(new(big.Int).Div(new(big.Int).Mul(tot, big.NewInt(66)), big.NewInt(1000)), vt)
			x.Mul(x, big.NewInt(1000)).Div(x, big.NewInt(934))
			x.Add(x, new(big.Int).Mul(big.NewInt(int64(rng.Intn(5)-2)), bigE(int64(rng.Intn(19)))))
			if x.Sign() <= 0 {
				x = big.NewInt(1)
			}
			found := rng.Intn(10) != 0
			va := e.ValAddr(vi)
			if !found {
				va = sdk.ValAddress(other.Addr)
				vt = new(big.Int)
			}
			m := stakingtypes.NewMsgDelegate(user.Addr, va, sdk.NewCoin(bond, sdk.NewIntFromBigInt(x)))
			return m, anteNode{URL: sdk.MsgTypeURL(m), Kind: 3, Found: found, A: vt, B: x}
		default: // redelegate from validator 5 to validator 3 or 4
			vi := 3 + rng.Intn(3)
			vt, tot := valTokens(vi), total()
			vi = 3 + rng.Intn(2)
			vt = valTokens(vi)
			x := new(big.Int).Sub(new(big.Int).Div(new(big.Int).Mul(tot, big.NewInt(66)), big.NewInt(1000)), vt)
			if rng.Intn(2) == 0 {
				// inside the band between the redelegation boundary (v+x)/T = 6.6% and the delegation boundary
				// (v+x)/(T+x) = 6.6%: x + t (x/0.934 - x), t in {0, 1/1000 .. 999/1000}
				hi := new(big.Int).Div(new(big.Int).Mul(x, big.NewInt(1000)), big.NewInt(934))
				w := new(big.Int).Sub(hi, x)
				t := int64([]int{0, 1, 500, 999, rng.Intn(1000)}[rng.Intn(5)])
				x.Add(x, new(big.Int).Div(new(big.Int).Mul(w, big.NewInt(t)), big.NewInt(1000)))
			} else {
				x.Add(x, new(big.Int).Mul(big.NewInt(int64(rng.Intn(5)-2)), bigE(int64(rng.Intn(19)))))
			}
			if x.Sign() <= 0 {
				x = big.NewInt(1)
			}
			same := rng.Intn(8) == 0
			src := e.ValAddr(5)
			if same {
				src = e.ValAddr(vi)
			}
			m := stakingtypes.NewMsgBeginRedelegate(user.Addr, src, e.ValAddr(vi), sdk.NewCoin(bond, sdk.NewIntFromBigInt(x)))
			return m, anteNode{URL: sdk.MsgTypeURL(m), Kind: 4, Found: true, A: vt, B: x, Same: same}
		}
	}
	var wrapAs func(who chain.Account, depth int, m sdk.Msg, n anteNode) (sdk.Msg, anteNode)
	wrapAs = func(who chain.Account, depth int, m sdk.Msg, n anteNode) (sdk.Msg, anteNode) {
		if depth == 0 {
			return m, n
		}
		ex := authz.NewMsgExec(who.Addr, []sdk.Msg{m})
		return wrapAs(who, depth-1, &ex, anteNode{Exec: true, Inner: []anteNode{n}})
	}
	wrap := func(depth int, m sdk.Msg, n anteNode) (sdk.Msg, anteNode) { return wrapAs(user, depth, m, n) }
	var ownOperators []chain.Account
	// user also delegates to the small validator 5 so that redelegations have a source
	// (validator 5 holds 2% of the stake; 4.4% more keeps it under the 6.6% limit)
	d0 := stakingtypes.NewMsgDelegate(user.Addr, e.ValAddr(5), sdk.NewCoin(bond, sdk.NewIntFromBigInt(new(big.Int).Div(new(big.Int).Mul(total(), big.NewInt(44)), big.NewInt(1000)))))
	mustOK(e.Deliver(sdk.NewCoins(sdk.NewCoin("rowan", sdk.NewIntFromBigInt(chain.E(18)))), 5_000_000, []chain.Account{user}, d0), "source delegation")
	n := c.N(700, 20000)
	for i := 0; i < n; i++ {
		nm := 1 + rng.Intn(3)
		var msgs []sdk.Msg
		var nodes []anteNode
		for j := 0; j < nm; j++ {
			m, nd := mkLeaf()
			depth := 0
			if rng.Intn(3) == 0 {
				depth = 1 + rng.Intn(3)
			}
			m, nd = wrap(depth, m, nd)
			msgs = append(msgs, m)
			nodes = append(nodes, nd)
		}
		signer := user
		if rng.Intn(10) == 0 {
			// one transaction that first creates a validator and then delegates to it (directly, or both inside one authz
			// MsgExec): the rules are evaluated on the state before the transaction, where the validator does not exist yet, so
			// the delegation has no stake distribution to be checked against and the transaction must be refused
			op := chain.NewAccount(fmt.Sprintf("c19operator%d-%d", c.Seed, i))
			tot0 := total()
			x := new(big.Int).Div(tot0, big.NewInt(int64(4+rng.Intn(40)))) // 2.4% .. 20% of the stake after the delegation
			fund := banktypes.NewMsgSend(e.Users[2].Addr, op.Addr, sdk.NewCoins(sdk.NewCoin(bond, sdk.NewIntFromBigInt(new(big.Int).Add(x, big.NewInt(5000000)))), sdk.NewCoin("rowan", sdk.NewIntFromBigInt(chain.E(20)))).Sort())
			mustOK(e.Deliver(sdk.NewCoins(sdk.NewCoin("rowan", sdk.NewIntFromBigInt(chain.E(18)))), 5_000_000, []chain.Account{e.Users[2]}, fund), "fund operator")
			pk := ed25519.GenPrivKeyFromSecret([]byte(fmt.Sprintf("c19cons-op%d-%d", c.Seed, i))).PubKey()
			rate := sdk.NewDecWithPrec(int64(50+rng.Intn(11)), 3)
			cv, err := stakingtypes.NewMsgCreateValidator(sdk.ValAddress(op.Addr), pk, sdk.NewCoin(bond, sdk.NewInt(1000000)), stakingtypes.NewDescription("n", "", "", "", ""),
				stakingtypes.NewCommissionRates(rate, sdk.NewDecWithPrec(20, 2), sdk.NewDecWithPrec(1, 2)), sdk.OneInt())
			if err != nil {
				panic(err)
			}
			dl := stakingtypes.NewMsgDelegate(op.Addr, sdk.ValAddress(op.Addr), sdk.NewCoin(bond, sdk.NewIntFromBigInt(x)))
			n1 := anteNode{URL: sdk.MsgTypeURL(cv), Kind: 1, A: new(big.Int).Set(rate.BigInt())}
			n2 := anteNode{URL: sdk.MsgTypeURL(dl), Kind: 3, Found: false, A: new(big.Int), B: x}
			if rng.Intn(2) == 0 {
				ex := authz.NewMsgExec(op.Addr, []sdk.Msg{cv, dl})
				msgs, nodes = []sdk.Msg{&ex}, []anteNode{{Exec: true, Inner: []anteNode{n1, n2}}}
			} else {
				msgs, nodes = []sdk.Msg{cv, dl}, []anteNode{n1, n2}
			}
			signer = op
			rep.Count("tx.create-validator-then-delegate-to-it")
			switch rng.Intn(3) {
			case 1:
				// the creation alone, by an operator that has no validator yet (so that it is executed when it is let
				// through), commission from the whole scale
				rate = c19Rate(rng)
				cv, err = stakingtypes.NewMsgCreateValidator(sdk.ValAddress(op.Addr), pk, sdk.NewCoin(bond, sdk.NewInt(1000000)), stakingtypes.NewDescription("n", "", "", "", ""),
					stakingtypes.NewCommissionRates(rate, sdk.NewDecWithPrec(20, 2), sdk.NewDecWithPrec(20, 2)), sdk.OneInt())
				if err != nil {
					panic(err)
				}
				n1 = anteNode{URL: sdk.MsgTypeURL(cv), Kind: 1, A: new(big.Int).Set(rate.BigInt())}
				var m sdk.Msg = cv
				m, n1 = wrapAs(op, rng.Intn(3), m, n1)
				msgs, nodes = []sdk.Msg{m}, []anteNode{n1}
				ownOperators = append(ownOperators, op)
				rep.Count("tx.create-validator-fresh-operator")
			case 2:
				// an operator created above edits its commission, more than 24 h later (the staking module allows one
				// change a day, of at most the validator's maximum change rate: 20% here)
				if len(ownOperators) > 0 {
					op = ownOperators[rng.Intn(len(ownOperators))]
					if _, found := e.App.StakingKeeper.GetValidator(e.Ctx(), sdk.ValAddress(op.Addr)); found {
						step := e.BlockStep
						e.BlockStep = 25 * time.Hour
						e.NextBlock()
						e.BlockStep = step
						rate = c19Rate(rng)
						has := rng.Intn(5) != 0
						var rp *sdk.Dec
						if has {
							rp = &rate
						}
						var m sdk.Msg = stakingtypes.NewMsgEditValidator(sdk.ValAddress(op.Addr), stakingtypes.NewDescription("e", "", "", "", ""), rp, nil)
						nd := anteNode{URL: sdk.MsgTypeURL(m), Kind: 2, Has: has, A: new(big.Int).Set(rate.BigInt())}
						m, nd = wrapAs(op, rng.Intn(3), m, nd)
						msgs, nodes = []sdk.Msg{m}, []anteNode{nd}
						signer = op
						rep.Count("tx.edit-validator-own-operator")
					}
				}
			}
		}
		// fee around the floors
		floor := new(big.Int)
		for _, nd := range nodes {
			if f := specFloor(nd, submitFee); f.Cmp(floor) > 0 {
				floor = f
			}
		}
		var fee *big.Int
		switch rng.Intn(6) {
		case 0:
			fee = new(big.Int).Sub(floor, big.NewInt(1))
		case 1:
			fee = new(big.Int).Set(floor)
		case 2:
			fee = new(big.Int).Set(floorLow)
		case 3:
			fee = new(big.Int).Set(floorHigh)
		case 4:
			fee = big.NewInt(1)
		default:
			fee = new(big.Int).Add(floor, chain.E(18))
		}
		if fee.Sign() <= 0 {
			fee = big.NewInt(1)
		}
		tot := total()
		// the floors are about the rowan in the fee: other coins beside it (or instead of it) buy nothing
		feeCoins := sdk.NewCoins(sdk.NewCoin("rowan", sdk.NewIntFromBigInt(fee)))
		feeShape := "rowan-only"
		if signer.Addr.Equals(user.Addr) {
			switch rng.Intn(8) {
			case 0:
				feeCoins = feeCoins.Add(sdk.NewCoin("ceth", sdk.NewInt(int64(1+rng.Intn(1000)))))
				feeShape = "rowan+ceth"
			case 1:
				feeCoins = feeCoins.Add(sdk.NewCoin("ceth", sdk.NewInt(1)), sdk.NewCoin("cusdc", sdk.NewIntFromBigInt(chain.E(18))))
				feeShape = "rowan+ceth+cusdc"
			case 2:
				feeCoins = sdk.NewCoins(sdk.NewCoin("ceth", sdk.NewIntFromBigInt(chain.E(18))))
				fee = new(big.Int) // no rowan in the fee
				feeShape = "ceth-only"
			}
		}
		rep.Count("fee-shape." + feeShape)
		res := e.Deliver(feeCoins, 5_000_000, []chain.Account{signer}, msgs...)
		executed := res.Code == 0
		rejectedByRules := res.Code != 0 && !strings.Contains(res.Log, "failed to execute message") && (strings.Contains(res.Log, "tx fee is too low") || strings.Contains(res.Log, "unsupported fee asset") ||
			strings.Contains(res.Log, "cannot be lower than minimum") || strings.Contains(res.Log, "voting power") || strings.Contains(res.Log, "validator does not exist"))
		id++
		var js []interface{}
		for _, nd := range nodes {
			js = append(js, nd.json())
		}
		desc := map[string]interface{}{"fee_rowan": fee.String(), "msgs": js, "code": res.Code, "log": trunc(res.Log, 140), "spec_floor": floor.String()}
		rep.CaseIndex[fmt.Sprint(id)] = desc
		rep.Count(fmt.Sprintf("tx.%s", map[bool]string{true: "executed", false: map[bool]string{true: "rejected-by-rules", false: "failed-otherwise"}[rejectedByRules]}[executed]))
		if i < 3 {
			rep.Sample(desc)
		}
		// ---- monitor: the property on executed transactions ----
		if executed {
			if fee.Cmp(floor) < 0 {
				rep.Violate("C19/fee-below-floor", fmt.Sprintf("executed with fee %s, the highest floor among its messages is %s", fee, floor), desc)
			}
			for _, nd := range nodes {
				for _, lf := range leaves(nd) {
					switch lf.Kind {
					case 1:
						if lf.A.Cmp(bigE(16).Mul(bigE(16), big.NewInt(5))) < 0 {
							rep.Violate("C19/commission-below-5pct", "a validator was created with commission "+sdk.NewDecFromBigIntWithPrec(lf.A, 18).String(), desc)
						}
					case 2:
						if lf.Has && lf.A.Cmp(new(big.Int).Mul(bigE(16), big.NewInt(5))) < 0 {
							rep.Violate("C19/commission-below-5pct", "a validator was edited to commission "+sdk.NewDecFromBigIntWithPrec(lf.A, 18).String(), desc)
						}
					case 3:
						l := new(big.Int).Mul(new(big.Int).Add(lf.A, lf.B), big.NewInt(1000))
						r := new(big.Int).Mul(new(big.Int).Add(tot, lf.B), big.NewInt(66))
						if l.Cmp(r) >= 0 {
							rep.Violate("C19/concentration", fmt.Sprintf("delegation executed giving the validator %s of %s", new(big.Int).Add(lf.A, lf.B), new(big.Int).Add(tot, lf.B)), desc)
						}
					case 4:
						if !lf.Same {
							l := new(big.Int).Mul(new(big.Int).Add(lf.A, lf.B), big.NewInt(1000))
							r := new(big.Int).Mul(tot, big.NewInt(66))
							if l.Cmp(r) >= 0 {
								rep.Violate("C19/concentration", fmt.Sprintf("redelegation executed giving the validator %s of %s", new(big.Int).Add(lf.A, lf.B), tot), desc)
							}
						}
					}
				}
			}
		}
		// ---- case for the model (ante decision only) ----
		// a transaction that failed in the execution of one of its messages has passed the whole ante chain: for the two
		// decorators it counts as accepted
		passedAnte := executed || (res.Code != 0 && strings.Contains(res.Log, "failed to execute message"))
		if passedAnte {
			for _, nd := range nodes {
				for _, lf := range leaves(nd) {
					if (lf.Kind == 1 || (lf.Kind == 2 && lf.Has)) && lf.A.Cmp(new(big.Int).Mul(bigE(16), big.NewInt(5))) < 0 {
						rep.Count("commission-below-5pct-past-the-ante-chain")
					}
				}
			}
		}
		if passedAnte || rejectedByRules {
			en := &env.Enc{}
			en.I(int64(id)).Z(submitFee).Z(fee).Z(tot).Len(len(nodes))
			for _, nd := range nodes {
				nd.enc(en, urlID)
			}
			en.B(rejectedByRules)
			cases = append(cases, en.Coq())
		}
		if i%5 == 4 {
			e.NextBlock()
		}
	}
	rep.Evaluations = id
	rep.DistinctNontrivial = distinct(cases)
	rep.ImplTraces = id
	rep.Rule = "one case = one signed transaction delivered to the real app (real ante chain and message execution): 1-3 messages drawn from bank send, swap, add/remove liquidity, user claim, IBC transfer, gov proposal, create/edit validator (commission 4.0-6.0%, or exactly 0, 1e-18, 1%, 5%-1e-18, 20%), delegate / redelegate around the 6.6% boundary, each nested 0-3 deep in authz MsgExec with probability 1/3, fee = floor-1 / floor / 0.01 / 0.1 / 1 base unit / floor+1 rowan; non-trivial = distinct (messages, fee, stake) case that was executed or rejected by the two decorators"
	var tbl []string
	for _, u := range urls {
		tbl = append(tbl, fmt.Sprintf("(%d%%Z, \"%s\"%%string)", urlID[u], u))
	}
	per := 400
	for s := 0; s*per < len(cases); s++ {
		end := (s + 1) * per
		if end > len(cases) {
			end = len(cases)
		}
		writeCases(c, rep, fmt.Sprintf("cases_C19_%d.v", s), "From Coq Require Import String.\nFrom Sif Require Import Check.C19.\n",
			fmt.Sprintf("Definition urls : list (Z * string) := [%s].\nDefinition cases : list (list int) := %s.\nDefinition M := Eval vm_compute in (c19_mismatches urls cases).\n",
				strings.Join(tbl, "; "), coqList(cases[s*per:end])))
	}
	return rep
}
