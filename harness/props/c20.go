package props

import (
	"fmt"
	"math/big"
	"os"
	"path/filepath"
	"strings"

	clptypes "github.com/Sifchain/sifnode/x/clp/types"
	disptypes "github.com/Sifchain/sifnode/x/dispensation/types"
	sdk "github.com/cosmos/cosmos-sdk/types"
	authtypes "github.com/cosmos/cosmos-sdk/x/auth/types"
	banktypes "github.com/cosmos/cosmos-sdk/x/bank/types"

	"sifverif/chain"
	"sifverif/env"
	"sifverif/report"
)

type Ctx struct {
	Seed   int64
	Tier   string
	OutDir string
	Replay string
}

func (c Ctx) N(quick, thorough int) int {
	if c.Tier == "thorough" {
		return thorough
	}
	return quick
}

func mustOK(r chain.TxResult, what string) {
	if r.Code != 0 {
		panic(fmt.Sprintf("%s failed: code %d %s", what, r.Code, r.Log))
	}
}

func bigStr(s string) *big.Int {
	x, ok := new(big.Int).SetString(s, 10)
	if !ok {
		panic(s)
	}
	return x
}

// RandAmount: log-uniform with boundary values.
func RandAmount(r *chain.Rng, maxExp int) *big.Int {
	switch r.Intn(12) {
	case 0:
		return big.NewInt(1)
	case 1:
		return new(big.Int).Add(new(big.Int).Lsh(big.NewInt(1), 64), big.NewInt(int64(r.Intn(3)-1)))
	}
	return r.LogUniform(maxExp)
}

// C20 generates (a) ecosystem-mint histories across the cap, with restarts from committed state,
// (b) reward-period histories with user traffic; observes every BeginBlock / EndBlock.
func C20(c Ctx) *report.Report {
	rep := report.New("C20", c.Seed, c.Tier)
	rng := chain.NewRng(c.Seed)
	var mintCases, rewCases []string
	caseID := 0

	maxMint := bigStr(disptypes.MaxMintAmount)
	perBlock := bigStr(disptypes.MintAmountPerBlock)
	ecoAddr, err := sdk.AccAddressFromBech32(disptypes.EcoPool)
	if err != nil {
		panic(err)
	}
	dispAddr := authtypes.NewModuleAddress(disptypes.ModuleName)

	// ---- (a) mint cap ----
	nMint := c.N(12, 200)
	for h := 0; h < nMint; h++ {
		e := env.New(env.Opts{NUsers: 2, Tokens: []string{"cusdc"}})
		e.BeginBlock()
		// counter started near the cap: k blocks + remainder away
		k := int64(rng.Intn(12))
		rem := new(big.Int)
		switch rng.Intn(4) {
		case 0: // exact multiple
		case 1:
			rem.SetInt64(1)
		case 2:
			rem.Sub(perBlock, big.NewInt(1))
		default:
			rem.Rand(rng.Rand, perBlock)
		}
		start := new(big.Int).Sub(maxMint, new(big.Int).Add(new(big.Int).Mul(perBlock, big.NewInt(k)), rem))
		if h%6 == 5 {
			start = big.NewInt(0) // also from genesis value
		}
		e.App.DispensationKeeper.SetMintController(e.Ctx(), disptypes.MintController{TotalCounter: sdk.NewCoin("rowan", sdk.NewIntFromBigInt(start))})
		nBlocks := int(k) + 2 + rng.Intn(6)
		totalMinted := new(big.Int)
		hist := map[string]interface{}{"kind": "mint", "start_counter": start.String(), "blocks": nBlocks}
		var restarts []int
		for b := 0; b < nBlocks; b++ {
			// some user traffic between blocks
			if rng.Intn(2) == 0 {
				m := banktypes.NewMsgSend(e.Users[0].Addr, e.Users[1].Addr, sdk.NewCoins(sdk.NewCoin("rowan", sdk.NewIntFromBigInt(RandAmount(rng, 20)))))
				e.Tx(e.Users[0], m)
			}
			e.EndBlock()
			e.Commit()
			if rng.Intn(5) == 0 {
				e.Reopen()
				restarts = append(restarts, int(e.Height))
				rep.Count("mint.restarts")
			}
			pre := mintObs(e, ecoAddr, dispAddr)
			if e.BeginBlock() {
				rep.Violate("C20/mint/beginblock-panic", fmt.Sprint(e.HookPanic), hist)
				break
			}
			post := mintObs(e, ecoAddr, dispAddr)
			caseID++
			me := &env.Enc{}
			me.I(int64(caseID)).B(true).Z(pre[0]).Z(pre[1]).Z(pre[2]).Z(pre[3]).B(false).Len(4).Z(post[0]).Z(post[1]).Z(post[2]).Z(post[3])
			mintCases = append(mintCases, me.Coq())
			rep.CaseIndex[fmt.Sprint(caseID)] = map[string]interface{}{"history": hist, "block": b, "pre": bigs(pre), "post": bigs(post)}
			// monitor: the property itself on the observed states
			minted := new(big.Int).Sub(post[3], pre[3])
			totalMinted.Add(totalMinted, minted)
			dc := new(big.Int).Sub(post[0], pre[0])
			de := new(big.Int).Sub(post[1], pre[1])
			expect := new(big.Int).Sub(maxMint, pre[0])
			if expect.Cmp(perBlock) > 0 {
				expect = perBlock
			}
			if expect.Sign() < 0 {
				expect = big.NewInt(0)
			}
			if post[0].Cmp(maxMint) > 0 {
				rep.Violate("C20/mint/counter-exceeds-cap", fmt.Sprintf("counter %s > cap", post[0]), rep.CaseIndex[fmt.Sprint(caseID)])
			}
			if dc.Cmp(minted) != 0 || de.Cmp(minted) != 0 {
				rep.Violate("C20/mint/counter-ne-minted", fmt.Sprintf("counter +%s, eco +%s, supply +%s", dc, de, minted), rep.CaseIndex[fmt.Sprint(caseID)])
			}
			if minted.Cmp(expect) != 0 {
				rep.Violate("C20/mint/wrong-amount", fmt.Sprintf("minted %s expected %s", minted, expect), rep.CaseIndex[fmt.Sprint(caseID)])
			}
			switch {
			case minted.Sign() == 0:
				rep.Count("mint.block.zero")
			case minted.Cmp(perBlock) == 0:
				rep.Count("mint.block.full")
			default:
				rep.Count("mint.block.remainder")
			}
		}
		hist["restarts"] = restarts
		rep.Sample(hist)
		rep.ImplTraces++
	}

	// ---- (b) reward periods ----
	nRew := c.N(14, 300)
	for h := 0; h < nRew; h++ {
		toks := []string{"cdash", "ceth", "cusdc"}[:1+rng.Intn(3)]
		// corpus (h == 2, 3): six / seven pools of one depth - their 18-digit weights round up and add up to more than 1, so only
		// the cap on the last pool keeps the minted amount within the block distribution
		equalPools := h == 2 || h == 3
		if equalPools {
			toks = []string{"cada", "cdash", "ceth", "clink", "cusdc", "cwbtc", "czrx"}[:4+h]
		}
		e := env.New(env.Opts{NUsers: 4, Tokens: toks})
		e.BeginBlock()
		// pools (sometimes none at first: the period then starts with zero total depth and pools appear later)
		latePools := (rng.Intn(4) == 0 || h < 2) && !equalPools // corpus (h < 2): no depth over several distribution blocks of a period with mod > 1
		for i, t := range toks {
			if equalPools {
				n := new(big.Int).Mul(big.NewInt(1000000), chain.E(18))
				mustOK(e.CreatePool(e.Users[i%2], t, n, n), "create pool")
				continue
			}
			if (rng.Intn(6) == 0 && i > 0) || latePools {
				continue // token without pool
			}
			mustOK(e.CreatePool(e.Users[i%2], t, new(big.Int).Add(chain.E(18), RandAmount(rng, 30)), RandAmount(rng, 30)), "create pool")
			for _, u := range e.Users[1:] {
				if rng.Intn(2) == 0 {
					e.AddLiquidity(u, t, RandAmount(rng, 28), RandAmount(rng, 28))
				}
			}
		}
		start := uint64(e.Height) + uint64(1+rng.Intn(3))
		length := uint64(1 + rng.Intn(12))
		alloc := RandAmount(rng, 30)
		if rng.Intn(10) == 0 {
			alloc = big.NewInt(int64(rng.Intn(20))) // smaller than the length: per-block share 0
		}
		au := sdk.NewUintFromBigInt(alloc)
		dflt := sdk.NewDecWithPrec(int64(rng.Intn(1001)), 2) // 0 .. 10.00
		if rng.Intn(6) == 0 {
			dflt = sdk.ZeroDec() // zero weight: total depth 0 unless a pool multiplier says otherwise
		}
		var mults []*clptypes.PoolMultiplier
		for ti, t := range toks {
			if ti == 0 && rng.Intn(4) == 0 {
				z := sdk.ZeroDec() // excluded pool sorting first
				mults = append(mults, &clptypes.PoolMultiplier{PoolMultiplierAsset: t, Multiplier: &z})
			} else if rng.Intn(3) == 0 {
				m := sdk.NewDecWithPrec(int64(rng.Intn(1001)), 2)
				mults = append(mults, &clptypes.PoolMultiplier{PoolMultiplierAsset: t, Multiplier: &m})
			}
		}
		period := &clptypes.RewardPeriod{RewardPeriodId: "rp", RewardPeriodStartBlock: start, RewardPeriodEndBlock: start + length - 1,
			RewardPeriodAllocation: &au, RewardPeriodPoolMultipliers: mults, RewardPeriodDefaultMultiplier: &dflt,
			RewardPeriodDistribute: rng.Intn(2) == 0, RewardPeriodMod: uint64(rng.Intn(5))}
		if equalPools {
			one := sdk.OneDec()
			period.RewardPeriodDefaultMultiplier, period.RewardPeriodPoolMultipliers, period.RewardPeriodDistribute = &one, nil, h == 3
			dflt = one
			alloc = new(big.Int).Mul(big.NewInt(int64(60000000+rng.Intn(1000))), chain.E(18))
			au = sdk.NewUintFromBigInt(alloc)
			if period.RewardPeriodMod == 0 {
				period.RewardPeriodMod = 1
			}
		}
		if h < 2 {
			length = 10 + uint64(h)
			period.RewardPeriodEndBlock = start + length - 1
			period.RewardPeriodMod = 2 + uint64(h)
			one := sdk.OneDec()
			period.RewardPeriodDefaultMultiplier, period.RewardPeriodPoolMultipliers = &one, nil
			dflt = one
			if alloc.Cmp(big.NewInt(1000)) < 0 {
				alloc = big.NewInt(900000)
				au = sdk.NewUintFromBigInt(alloc)
			}
		}
		mustOK(e.AddRewardPeriods([]*clptypes.RewardPeriod{period}), "add reward period")
		hist := map[string]interface{}{"kind": "rewards", "tokens": toks, "start": start, "length": length, "alloc": alloc.String(),
			"default_multiplier": dflt.String(), "distribute": period.RewardPeriodDistribute, "mod": period.RewardPeriodMod, "seed": c.Seed, "history": h}
		rep.Count(fmt.Sprintf("rewards.distribute=%v", period.RewardPeriodDistribute))
		rep.Count(fmt.Sprintf("rewards.mod=%d", period.RewardPeriodMod))
		periodMinted := new(big.Int)
		accuBefore := new(big.Int)
		nBlocks := int(length) + 4
		for b := 0; b < nBlocks; b++ {
			if latePools && b == int(length)/2 {
				for i, t := range toks {
					e.CreatePool(e.Users[i%2], t, new(big.Int).Add(chain.E(18), RandAmount(rng, 30)), RandAmount(rng, 30))
				}
			}
			// user traffic
			for i := 0; i < rng.Intn(3); i++ {
				u := e.Users[rng.Intn(len(e.Users))]
				t := toks[rng.Intn(len(toks))]
				switch rng.Intn(4) {
				case 0:
					e.AddLiquidity(u, t, RandAmount(rng, 26), RandAmount(rng, 26))
				case 1:
					e.Swap(u, "rowan", t, RandAmount(rng, 22), big.NewInt(0))
				case 2:
					e.Swap(u, t, "rowan", RandAmount(rng, 22), big.NewInt(0))
				case 3:
					e.RemoveLiquidity(u, t, int64(1+rng.Intn(10000)), 0)
				}
			}
			pre := e.Snapshot()
			supplyPre := e.Supply("rowan").BigInt()
			panicked := e.EndBlock()
			post := e.Snapshot()
			supplyPost := e.Supply("rowan").BigInt()
			caseID++
			re := &env.Enc{}
			re.I(int64(caseID)).Clp(pre).B(panicked).Clp(post)
			rewCases = append(rewCases, re.Coq())
			rep.CaseIndex[fmt.Sprint(caseID)] = map[string]interface{}{"history": hist, "block": b, "height": e.Height}
			if panicked {
				rep.Violate("C20/rewards/endblock-panic", fmt.Sprint(e.HookPanic), rep.CaseIndex[fmt.Sprint(caseID)])
				break
			}
			// monitor: net creation in this block <= accu + alloc/len, none outside distribution blocks
			created := new(big.Int).Sub(supplyPost, supplyPre)
			inPeriod := uint64(e.Height) >= start && uint64(e.Height) <= start+length-1
			perBlk := new(big.Int).Div(alloc, new(big.Int).SetUint64(length))
			bound := new(big.Int)
			if inPeriod {
				bound.Add(pre.Accu, perBlk)
			}
			// the carried-over entitlement follows the specification exactly: +alloc/len on a non-distribution
			// block of the period, 0 after a distribution block, untouched outside the period
			if inPeriod && alloc.Sign() != 0 {
				md := period.RewardPeriodMod
				if md == 0 {
					md = 1
				}
				want := new(big.Int)
				if (uint64(e.Height)-start)%md != 0 {
					want.Add(pre.Accu, perBlk)
				}
				if post.Accu.Cmp(want) != 0 {
					rep.Violate("C20/rewards/carry-over", fmt.Sprintf("height %d: carried-over entitlement is %s, specification says %s", e.Height, post.Accu, want), rep.CaseIndex[fmt.Sprint(caseID)])
				}
			} else if post.Accu.Cmp(pre.Accu) != 0 {
				rep.Violate("C20/rewards/carry-over", fmt.Sprintf("height %d: entitlement changed outside a reward period: %s -> %s", e.Height, pre.Accu, post.Accu), rep.CaseIndex[fmt.Sprint(caseID)])
			}
			if created.Cmp(bound) > 0 {
				rep.Violate("C20/rewards/block-bound", fmt.Sprintf("height %d created %s > accu %s + alloc/len %s", e.Height, created, pre.Accu, perBlk), rep.CaseIndex[fmt.Sprint(caseID)])
			}
			if inPeriod {
				periodMinted.Add(periodMinted, created)
			}
			if created.Sign() > 0 {
				rep.Count("rewards.block.minting")
				// every rewarded coin ends up in a pool or a provider account
				landed := new(big.Int)
				for i := range post.Pools {
					for j := range pre.Pools {
						if pre.Pools[j].Asset == post.Pools[i].Asset {
							landed.Add(landed, new(big.Int).Sub(post.Pools[i].NB, pre.Pools[j].NB))
						}
					}
				}
				landed.Add(landed, deltaUsersRowan(pre, post))
				if landed.Cmp(created) != 0 {
					rep.Violate("C20/rewards/not-landed", fmt.Sprintf("height %d created %s but pools+providers received %s", e.Height, created, landed), rep.CaseIndex[fmt.Sprint(caseID)])
				}
			} else {
				rep.Count("rewards.block.nomint")
			}
			_ = accuBefore
			e.Commit()
			if rng.Intn(6) == 0 {
				e.Reopen()
				rep.Count("rewards.restarts")
			}
			if e.BeginBlock() {
				rep.Violate("C20/rewards/beginblock-panic", fmt.Sprint(e.HookPanic), hist)
				break
			}
		}
		if periodMinted.Cmp(alloc) > 0 {
			rep.Violate("C20/rewards/period-bound", fmt.Sprintf("period created %s > allocation %s", periodMinted, alloc), hist)
		}
		hist["period_created"] = periodMinted.String()
		rep.Sample(hist)
		rep.ImplTraces++
	}

	rep.Evaluations = len(mintCases) + len(rewCases)
	rep.DistinctNontrivial = distinct(mintCases) + distinct(rewCases)
	rep.Rule = "one case = one observed BeginBlock (mint) or EndBlock (rewards) transition of the real app; non-trivial = distinct (pre-state, post-state) pair; " +
		"mint counters start k blocks + remainder below the cap (k<12, remainder 0/1/per-block-1/random), reward periods have random allocation, length 1..12, mod 0..4, multipliers 0..10, distribute on/off, 1-3 pools, user traffic between blocks, restarts from committed DB"
	writeCases(c, rep, "cases_C20.v",
		"From Sif Require Import Check.C20.\n",
		fmt.Sprintf("Definition mint_cases : list (list int) := %s.\nDefinition rew_cases : list (list int) := %s.\nDefinition M := Eval vm_compute in (mismatches mint_cases rew_cases).\n",
			coqList(mintCases), coqList(rewCases)))
	return rep
}

func bigs(xs []*big.Int) []string {
	out := make([]string, len(xs))
	for i, x := range xs {
		out[i] = x.String()
	}
	return out
}

func deltaUsersRowan(pre, post env.ClpState) *big.Int {
	sum := func(s env.ClpState) *big.Int {
		t := new(big.Int)
		for _, b := range s.Balances {
			if b.Acct >= 10 && b.Denom == 0 {
				t.Add(t, b.Amt)
			}
		}
		return t
	}
	return new(big.Int).Sub(sum(post), sum(pre))
}

func mintObs(e *env.Env, eco, disp sdk.AccAddress) []*big.Int {
	ctx := e.Ctx()
	ctrl, _ := e.App.DispensationKeeper.GetMintController(ctx)
	return []*big.Int{new(big.Int).Set(ctrl.TotalCounter.Amount.BigInt()), new(big.Int).Set(e.Balance(eco, "rowan").BigInt()),
		new(big.Int).Set(e.Balance(disp, "rowan").BigInt()), new(big.Int).Set(e.Supply("rowan").BigInt())}
}

func distinct(xs []string) int {
	m := map[string]bool{}
	for _, x := range xs {
		// strip the case id (first token: header + one limb)
		parts := strings.SplitN(x, ";", 3)
		m[parts[len(parts)-1]] = true
	}
	return len(m)
}

func coqList(items []string) string {
	if len(items) == 0 {
		return "[]"
	}
	return "[\n " + strings.Join(items, ";\n ") + "\n]"
}

func writeCases(c Ctx, rep *report.Report, name, imports, body string) {
	p := filepath.Join(c.OutDir, name)
	src := "From Coq Require Import ZArith List Bool Uint63.\nImport ListNotations.\n" + imports + "Local Open Scope uint63_scope.\n" + body + "Print M.\n"
	if err := os.WriteFile(p, []byte(src), 0o644); err != nil {
		panic(err)
	}
	rep.CaseFiles = append(rep.CaseFiles, p)
}

func itoa(i int) string { return fmt.Sprint(i) }
