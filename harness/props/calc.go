package props

import (
	"fmt"
	"math/big"

	clpkeeper "github.com/Sifchain/sifnode/x/clp/keeper"
	clptypes "github.com/Sifchain/sifnode/x/clp/types"
	sdk "github.com/cosmos/cosmos-sdk/types"

	"sifverif/chain"
	"sifverif/env"
	"sifverif/report"
)

// CalcCase is one call of a pure calculator on the real code.
type CalcCase struct {
	ID   int
	Fn   int
	Args []*big.Int
	Kind int // 0 ok, 1 error, 2 panic
	Outs []*big.Int
}

func (c CalcCase) Enc() string {
	e := &env.Enc{}
	e.I(int64(c.ID)).I(int64(c.Fn)).Len(len(c.Args))
	for _, a := range c.Args {
		e.Z(a)
	}
	e.I(int64(c.Kind)).Len(len(c.Outs))
	for _, o := range c.Outs {
		e.Z(o)
	}
	return e.Coq()
}

func (c CalcCase) JSON() map[string]interface{} {
	return map[string]interface{}{"fn": FnNames[c.Fn], "args": bigs(c.Args), "kind": []string{"ok", "error", "panic"}[c.Kind], "outs": bigs(c.Outs)}
}

var FnNames = map[int]string{1: "CalcSwapResult", 2: "SwapOne", 3: "CalculatePoolUnits", 4: "CalculateWithdrawal", 5: "CalculateWithdrawalFromUnits",
	6: "ConvUnitsToWBasisPoints", 7: "ConvWBasisPointsToUnits", 8: "CalculateDiscountedSentAmount", 9: "CalculateExternalSwapAmountAsymmetric",
	10: "CalculateNativeSwapAmountAsymmetric", 11: "CalcProviderDistributionAmount"}

func u(x *big.Int) sdk.Uint  { return sdk.NewUintFromBigInt(x) }
func dec(x *big.Int) sdk.Dec { return sdk.NewDecFromBigIntWithPrec(x, 18) }
func ub(x sdk.Uint) *big.Int { return new(big.Int).Set(x.BigInt()) }

// call runs f, classifying panics.
func call(f func() ([]*big.Int, error)) (kind int, outs []*big.Int) {
	defer func() {
		if r := recover(); r != nil {
			kind, outs = 2, nil
		}
	}()
	o, err := f()
	if err != nil {
		return 1, nil
	}
	return 0, o
}

// RunCalc calls calculator fn on args.
func RunCalc(fn int, a []*big.Int) (int, []*big.Int) {
	b := func(x *big.Int) bool { return x.Sign() != 0 }
	switch fn {
	case 1:
		return call(func() ([]*big.Int, error) {
			y, fee := clpkeeper.CalcSwapResult(b(a[0]), u(a[1]), u(a[2]), u(a[3]), dec(a[4]), dec(a[5]))
			return []*big.Int{ub(y), ub(fee)}, nil
		})
	case 2:
		return call(func() ([]*big.Int, error) {
			ext := clptypes.NewAsset("ceth")
			pool := clptypes.Pool{ExternalAsset: &ext, NativeAssetBalance: u(a[2]), ExternalAssetBalance: u(a[3]), NativeLiabilities: u(a[4]), ExternalLiabilities: u(a[5]),
				PoolUnits: sdk.ZeroUint(), NativeCustody: sdk.ZeroUint(), ExternalCustody: sdk.ZeroUint()}
			from, to := clptypes.GetSettlementAsset(), ext
			if b(a[0]) {
				from, to = ext, clptypes.GetSettlementAsset()
			}
			res, fee, _, np, err := clpkeeper.SwapOne(from, u(a[1]), to, pool, dec(a[6]), dec(a[7]))
			if err != nil {
				return nil, err
			}
			return []*big.Int{ub(res), ub(fee), ub(np.NativeAssetBalance), ub(np.ExternalAssetBalance)}, nil
		})
	case 3:
		return call(func() ([]*big.Int, error) {
			pu, lpu, st, s, err := clpkeeper.CalculatePoolUnits(u(a[0]), u(a[1]), u(a[2]), u(a[3]), u(a[4]), dec(a[5]), dec(a[6]), dec(a[7]))
			if err != nil {
				return nil, err
			}
			sw := big.NewInt(0)
			if s != (sdk.Uint{}) {
				sw = ub(s)
			}
			return []*big.Int{ub(pu), ub(lpu), big.NewInt(int64(st)), sw}, nil
		})
	case 4:
		return call(func() ([]*big.Int, error) {
			w, x, y, z := clpkeeper.CalculateWithdrawal(u(a[0]), a[1].String(), a[2].String(), a[3].String(), a[4].String(), sdk.NewIntFromBigInt(a[5]))
			return []*big.Int{ub(w), ub(x), ub(y), ub(z)}, nil
		})
	case 5:
		return call(func() ([]*big.Int, error) {
			w, x, y := clpkeeper.CalculateWithdrawalFromUnits(u(a[0]), a[1].String(), a[2].String(), a[3].String(), u(a[4]))
			return []*big.Int{ub(w), ub(x), ub(y)}, nil
		})
	case 6:
		return call(func() ([]*big.Int, error) {
			return []*big.Int{new(big.Int).Set(clpkeeper.ConvUnitsToWBasisPoints(u(a[0]), u(a[1])).BigInt())}, nil
		})
	case 7:
		return call(func() ([]*big.Int, error) {
			return []*big.Int{ub(clpkeeper.ConvWBasisPointsToUnits(u(a[0]), sdk.NewIntFromBigInt(a[1])))}, nil
		})
	case 8:
		return call(func() ([]*big.Int, error) {
			return []*big.Int{ub(clpkeeper.CalculateDiscountedSentAmount(u(a[0]), dec(a[1])))}, nil
		})
	case 9, 10:
		return call(func() ([]*big.Int, error) {
			f := new(big.Rat).SetFrac(a[4], chain.E(18))
			p := new(big.Rat).SetFrac(a[5], chain.E(18))
			if fn == 9 {
				return []*big.Int{ub(clpkeeper.CalculateExternalSwapAmountAsymmetric(u(a[0]), u(a[1]), u(a[2]), u(a[3]), f, p))}, nil
			}
			return []*big.Int{ub(clpkeeper.CalculateNativeSwapAmountAsymmetric(u(a[0]), u(a[1]), u(a[2]), u(a[3]), f, p))}, nil
		})
	case 11:
		return call(func() ([]*big.Int, error) {
			return []*big.Int{ub(clpkeeper.CalcProviderDistributionAmount(dec(a[0]), u(a[1]), u(a[2])))}, nil
		})
	}
	panic(fmt.Sprint("unknown fn ", fn))
}

// ---- generators --------------------------------------------------------------------

func RandRate(r *chain.Rng) *big.Int { // fee rate in [0,1] as Dec int
	switch r.Intn(8) {
	case 0:
		return big.NewInt(0)
	case 1:
		return big.NewInt(1)
	case 2:
		return chain.E(18)
	case 3:
		return new(big.Int).Mul(big.NewInt(3), chain.E(15))
	case 4:
		return new(big.Int).Mul(big.NewInt(5), chain.E(17))
	}
	return new(big.Int).Rand(r.Rand, new(big.Int).Add(chain.E(18), big.NewInt(1)))
}

func RandPmtp(r *chain.Rng, max int64) *big.Int { // ratio-shifting rate in [0,max]
	switch r.Intn(5) {
	case 0:
		return big.NewInt(0)
	case 1:
		return chain.E(18)
	}
	return new(big.Int).Rand(r.Rand, new(big.Int).Mul(big.NewInt(max), chain.E(18)))
}

func RandDepth(r *chain.Rng) *big.Int { return RandAmount(r, 33) }

// GenCalcArgs draws arguments for calculator fn.
func GenCalcArgs(r *chain.Rng, fn int) []*big.Int {
	zero := big.NewInt(0)
	bo := func() *big.Int { return big.NewInt(int64(r.Intn(2))) }
	liab := func() *big.Int {
		if r.Intn(3) == 0 {
			return RandAmount(r, 30)
		}
		return zero
	}
	switch fn {
	case 1:
		x := RandAmount(r, 40)
		if r.Intn(20) == 0 {
			x = zero
		}
		return []*big.Int{bo(), RandDepth(r), x, RandDepth(r), RandPmtp(r, 5), RandRate(r)}
	case 2:
		return []*big.Int{bo(), RandAmount(r, 38), RandDepth(r), RandDepth(r), liab(), liab(), RandPmtp(r, 5), RandRate(r)}
	case 3, 9, 10:
		R, A := RandDepth(r), RandDepth(r)
		var rr, aa *big.Int
		switch r.Intn(6) {
		case 0: // exactly symmetric
			k := RandAmount(r, 5)
			rr, aa = new(big.Int).Mul(R, k), new(big.Int).Mul(A, k)
		case 1:
			rr, aa = RandAmount(r, 36), zero
		case 2:
			rr, aa = zero, RandAmount(r, 36)
		default:
			rr, aa = RandAmount(r, 38), RandAmount(r, 38)
		}
		if fn == 3 {
			P := RandDepth(r)
			if r.Intn(15) == 0 {
				R, A, P = zero, zero, zero
			}
			return []*big.Int{P, R, A, rr, aa, RandRate(r), RandRate(r), RandPmtp(r, 1)}
		}
		// the asymmetric formulas are only defined on their own side of the ratio; call them there
		cmp := new(big.Int).Mul(R, aa).Cmp(new(big.Int).Mul(rr, A))
		if fn == 9 && !(aa.Sign() > 0 && cmp > 0) { // needs R/A > r/a
			rr = new(big.Int).Div(new(big.Int).Mul(R, aa), new(big.Int).Mul(A, big.NewInt(int64(2+r.Intn(5)))))
			if aa.Sign() == 0 {
				aa = RandAmount(r, 30)
			}
		}
		if fn == 10 && !(rr.Sign() > 0 && (aa.Sign() == 0 || cmp < 0)) {
			aa = new(big.Int).Div(new(big.Int).Mul(A, rr), new(big.Int).Mul(R, big.NewInt(int64(2+r.Intn(5)))))
			if rr.Sign() == 0 {
				rr = RandAmount(r, 30)
			}
		}
		return []*big.Int{R, A, rr, aa, RandRate(r), RandPmtp(r, 1)}
	case 4:
		pu := RandDepth(r)
		lp := new(big.Int).Div(pu, RandAmount(r, 12))
		if r.Intn(4) == 0 {
			lp = pu
		}
		wb := big.NewInt(int64(1 + r.Intn(10000)))
		if r.Intn(4) == 0 {
			wb = big.NewInt(10000)
		}
		if r.Intn(25) == 0 {
			wb = zero
		}
		asym := zero
		if r.Intn(4) == 0 {
			asym = big.NewInt(int64(r.Intn(20001) - 10000))
		}
		return []*big.Int{pu, RandDepth(r), RandDepth(r), lp, wb, asym}
	case 5:
		pu := RandDepth(r)
		lp := new(big.Int).Div(pu, RandAmount(r, 12))
		if r.Intn(4) == 0 {
			lp = pu
		}
		wu := new(big.Int).Add(big.NewInt(1), new(big.Int).Rand(r.Rand, new(big.Int).Add(lp, big.NewInt(1))))
		if r.Intn(4) == 0 {
			wu = lp
		}
		if r.Intn(25) == 0 {
			wu = zero
		}
		return []*big.Int{pu, RandDepth(r), RandDepth(r), lp, wu}
	case 6:
		t := RandDepth(r)
		return []*big.Int{t, new(big.Int).Add(big.NewInt(int64(r.Intn(2))), new(big.Int).Rand(r.Rand, new(big.Int).Add(t, big.NewInt(1))))}
	case 7:
		return []*big.Int{RandDepth(r), big.NewInt(int64(r.Intn(10002)))}
	case 8:
		return []*big.Int{RandAmount(r, 38), RandRate(r)}
	case 11:
		pu := RandDepth(r)
		lp := new(big.Int).Div(pu, RandAmount(r, 25))
		if r.Intn(5) == 0 {
			lp = pu
		}
		return []*big.Int{new(big.Int).Mul(RandAmount(r, 33), chain.E(18)), pu, lp}
	}
	panic("fn")
}

// CalcCases generates n cases over the given calculators; ids start at *next.
func CalcCases(rep *report.Report, r *chain.Rng, fns []int, n int, next *int) []CalcCase {
	var out []CalcCase
	for i := 0; i < n; i++ {
		fn := fns[i%len(fns)]
		args := GenCalcArgs(r, fn)
		kind, outs := RunCalc(fn, args)
		*next++
		c := CalcCase{ID: *next, Fn: fn, Args: args, Kind: kind, Outs: outs}
		out = append(out, c)
		rep.Count(fmt.Sprintf("calc.%s.%s", FnNames[fn], []string{"ok", "error", "panic"}[kind]))
	}
	return out
}

// writeCalcFiles shards calc cases into files of at most per cases each.
func writeCalcFiles(c Ctx, rep *report.Report, prefix string, cases []CalcCase, per int) {
	for s := 0; s*per < len(cases); s++ {
		end := (s + 1) * per
		if end > len(cases) {
			end = len(cases)
		}
		var items []string
		for _, cc := range cases[s*per : end] {
			items = append(items, cc.Enc())
		}
		writeCases(c, rep, fmt.Sprintf("%s_%d.v", prefix, s), "From Sif Require Import Check.Calc.\n",
			fmt.Sprintf("Definition cases : list (list int) := %s.\nDefinition M := Eval vm_compute in (calc_mismatches cases).\n", coqList(items)))
	}
}
