package props

import (
	"sifverif/chain"
	"sifverif/report"
)

// CalcAll: development aid — every calculator, no monitors.
func CalcAll(c Ctx) *report.Report {
	rep := report.New("CALC", c.Seed, c.Tier)
	rng := chain.NewRng(c.Seed)
	next := 0
	cases := CalcCases(rep, rng, []int{1, 2, 3, 4, 5, 6, 7, 8, 9, 10, 11}, c.N(2200, 50000), &next)
	for _, cc := range cases {
		rep.CaseIndex[itoa(cc.ID)] = cc.JSON()
	}
	rep.Evaluations = len(cases)
	writeCalcFiles(c, rep, "cases_CALC", cases, 1500)
	return rep
}
