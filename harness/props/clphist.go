package props

import (
	"encoding/json"
	"fmt"
	"math/big"
	"os"
	"path/filepath"
	"reflect"
	"strings"
	"time"

	clptypes "github.com/Sifchain/sifnode/x/clp/types"
	margintypes "github.com/Sifchain/sifnode/x/margin/types"
	sdk "github.com/cosmos/cosmos-sdk/types"

	"sifverif/chain"
	"sifverif/env"
	"sifverif/report"
)

// Msg is a clp user message in id form (mirror of Model/ClpMsgs.clp_msg).
type Msg struct {
	Tag    int // 1 CreatePool 2 AddLiquidity 3 RemoveLiquidity 4 RemoveLiquidityUnits 5 Swap 6 Unlock 7 CancelUnlock 8 Decommission 9 AddToBucket
	Signer int64
	A, B   int64 // asset / sent, recv
	X, Y   *big.Int
	Coins  [][2]*big.Int
}

var MsgNames = map[int]string{1: "CreatePool", 2: "AddLiquidity", 3: "RemoveLiquidity", 4: "RemoveLiquidityUnits", 5: "Swap", 6: "UnlockLiquidity",
	7: "CancelUnlock", 8: "DecommissionPool", 9: "AddLiquidityToRewardsBucket"}

func (m Msg) enc(e *env.Enc) {
	e.I(int64(m.Tag)).I(m.Signer)
	switch m.Tag {
	case 1, 2, 3:
		e.I(m.A).Z(m.X).Z(m.Y)
	case 4, 6, 7:
		e.I(m.A).Z(m.X)
	case 5:
		e.I(m.A).I(m.B).Z(m.X).Z(m.Y)
	case 8:
		e.I(m.A)
	case 9:
		e.Len(len(m.Coins))
		for _, c := range m.Coins {
			e.Z(c[0]).Z(c[1])
		}
	}
}

func (m Msg) JSON(e *env.Env) map[string]interface{} {
	dl := e.DenomList()
	out := map[string]interface{}{"type": MsgNames[m.Tag], "signer": e.AcctOf[m.Signer]}
	den := func(i int64) string {
		if i >= 0 && int(i) < len(dl) {
			return dl[i]
		}
		return fmt.Sprint("?", i)
	}
	switch m.Tag {
	case 1, 2:
		out["asset"], out["native"], out["external"] = den(m.A), m.X.String(), m.Y.String()
	case 3:
		out["asset"], out["wbasis"], out["asymmetry"] = den(m.A), m.X.String(), m.Y.String()
	case 4, 6, 7:
		out["asset"], out["units"] = den(m.A), m.X.String()
	case 5:
		out["sent"], out["received"], out["amount"], out["min"] = den(m.A), den(m.B), m.X.String(), m.Y.String()
	case 8:
		out["asset"] = den(m.A)
	case 9:
		var cs []string
		for _, c := range m.Coins {
			cs = append(cs, c[1].String()+den(c[0].Int64()))
		}
		out["coins"] = cs
	}
	return out
}

// Step is one observed transition of the real application.
type Step struct {
	ID       int
	Kind     int // 1 tx, 2 EndBlock, 3 BeginBlock
	Msg      Msg
	Fee      *big.Int
	OK       bool // tx: code 0 ; hooks: did not panic
	Epoch    bool // BeginBlock: the rewards epoch ended in this block
	Pre      env.ClpState
	Post     env.ClpState
	Log      string
	HistID   int
	StepNo   int
	EnvRef   *env.Env
	Signer   chain.Account
	ChainMsg sdk.Msg
}

func (s Step) Enc() string {
	e := &env.Enc{}
	e.I(int64(s.ID)).I(int64(s.Kind))
	if s.Kind == 1 {
		s.Msg.enc(e)
		e.Z(s.Fee)
	}
	if s.Kind == 3 {
		e.B(s.Epoch)
	}
	e.B(s.OK).Clp(s.Pre).Clp(s.Post)
	return e.Coq()
}

func (s Step) JSON() map[string]interface{} {
	out := map[string]interface{}{"history": s.HistID, "step": s.StepNo, "height": s.Pre.Height, "ok": s.OK}
	switch s.Kind {
	case 1:
		out["tx"] = s.Msg.JSON(s.EnvRef)
		out["log"] = s.Log
	case 2:
		out["hook"] = "EndBlock"
	case 3:
		out["hook"] = "BeginBlock"
		out["rewards_epoch_ended"] = s.Epoch
	}
	if s.Kind != 1 && s.Log != "" {
		out["panic"] = s.Log
	}
	return out
}

// HistOpts configures the history generator.
type HistOpts struct {
	Histories   int
	Steps       int
	Tokens      []string
	Users       int
	Weights     map[int]int // message tag -> weight
	Locks       bool        // set liquidity-removal lock / cancel periods
	Lppd        bool        // provider distribution periods
	Rewards     bool        // reward periods
	Fees        bool        // per-token swap fee overrides
	Pmtp        bool        // non-zero ratio-shifting running rate
	Perms       bool        // restricted registry permissions
	Whitelist   bool        // users[0] may decommission
	MaxExp      int         // amount magnitude
	BlockEach   int         // a block boundary every n messages (0 = 3)
	LockChanges bool        // the admin changes lock / cancel periods in the middle of histories
	Epochs      bool        // rewards-bucket epochs: hour epoch, 25-minute blocks
}

type History struct {
	ID    int
	Env   *env.Env
	Steps []Step
	Desc  map[string]interface{}
}

// RunClpHistories drives the real app and records every transition.
func RunClpHistories(c Ctx, rep *report.Report, rng *chain.Rng, o HistOpts, nextID *int) []History {
	var hs []History
	if o.MaxExp == 0 {
		o.MaxExp = 30
	}
	if o.BlockEach == 0 {
		o.BlockEach = 3
	}
	for h := 0; h < o.Histories; h++ {
		toks := o.Tokens[:1+rng.Intn(len(o.Tokens))]
		desc := map[string]interface{}{"seed": c.Seed, "history": h, "tokens": toks}
		e := env.New(env.Opts{NUsers: o.Users, Tokens: toks, Transform: func(g *chain.Genesis) {
			if o.Perms {
				for _, en := range g.Registry {
					// random subset of permissions
					var ps []int32
					for p := int32(1); p <= 5; p++ {
						keep := rng.Intn(4) != 0
						if p >= 4 {
							keep = rng.Intn(5) == 0
						}
						if keep {
							ps = append(ps, p)
						}
					}
					en.Permissions = nil
					for _, p := range ps {
						en.Permissions = append(en.Permissions, permOf(p))
					}
				}
				if rng.Intn(4) == 0 && len(g.Registry) > 1 {
					g.Registry = g.Registry[:len(g.Registry)-1] // last token unregistered
				}
			}
			if o.Whitelist {
				g.Transform = whitelistTransform(chain.NewAccount("user0").Addr.String())
			}
		}})
		hist := History{ID: h, Env: e, Desc: desc}
		e.BeginBlock()
		// policy set-up through the real admin messages
		epochID, rewardsLock, wallet := "", uint64(0), false
		if o.Epochs && rng.Intn(4) != 0 {
			e.BlockStep = 25 * time.Minute
			epochID, rewardsLock, wallet = "hour", uint64(rng.Intn(4)), rng.Intn(2) == 0
			desc["rewards_epoch"], desc["rewards_lock"], desc["rewards_to_wallet"] = epochID, rewardsLock, wallet
		}
		if o.Locks && rng.Intn(3) != 0 {
			lock := []uint64{0, 1, 2, 5, 50}[rng.Intn(5)]
			cancel := []uint64{0, 1, 2, 5, 50}[rng.Intn(5)]
			mustOK(e.UpdateRewardsParams(lock, cancel, rewardsLock, epochID, wallet), "rewards params")
			desc["lock"], desc["cancel"] = lock, cancel
		} else {
			mustOK(e.UpdateRewardsParams(0, 0, rewardsLock, epochID, wallet), "rewards params")
		}
		if o.Fees && rng.Intn(2) == 0 {
			m := clptypes.MsgUpdateSwapFeeParamsRequest{Signer: e.Admin.Addr.String(), DefaultSwapFeeRate: dec(RandRate(rng))}
			for _, t := range append([]string{"rowan"}, toks...) {
				if rng.Intn(2) == 0 {
					m.TokenParams = append(m.TokenParams, &clptypes.SwapFeeTokenParams{Asset: t, SwapFeeRate: dec(RandRate(rng))})
				}
			}
			mustOK(e.Tx(e.Admin, &m), "swap fee params")
		}
		if o.Pmtp && rng.Intn(2) == 0 {
			m := clptypes.MsgModifyPmtpRates{Signer: e.Admin.Addr.String(), RunningRate: dec(RandPmtp(rng, 2)).String()}
			mustOK(e.Tx(e.Admin, &m), "pmtp rates")
		}
		if o.Lppd && rng.Intn(2) == 0 {
			st := uint64(e.Height) + uint64(rng.Intn(4))
			p := &clptypes.ProviderDistributionPeriod{DistributionPeriodBlockRate: dec(RandRate(rng)), DistributionPeriodStartBlock: st,
				DistributionPeriodEndBlock: st + uint64(1+rng.Intn(10)), DistributionPeriodMod: uint64(1 + rng.Intn(3))}
			mustOK(e.AddLppdPeriods([]*clptypes.ProviderDistributionPeriod{p}), "lppd")
			desc["lppd_rate"] = p.DistributionPeriodBlockRate.String()
		}
		if o.Rewards && rng.Intn(2) == 0 {
			st := uint64(e.Height) + uint64(rng.Intn(4))
			au := sdk.NewUintFromBigInt(RandAmount(rng, 28))
			dm := sdk.NewDecWithPrec(int64(rng.Intn(1001)), 2)
			p := &clptypes.RewardPeriod{RewardPeriodId: "rp", RewardPeriodStartBlock: st, RewardPeriodEndBlock: st + uint64(1+rng.Intn(10)),
				RewardPeriodAllocation: &au, RewardPeriodDefaultMultiplier: &dm, RewardPeriodDistribute: rng.Intn(2) == 0, RewardPeriodMod: uint64(rng.Intn(4))}
			// per-pool multipliers, incl. a pool excluded from rewards (multiplier 0) that sorts before the others
			for ti, t := range toks {
				switch {
				case ti == 0 && rng.Intn(3) == 0:
					z := sdk.ZeroDec()
					p.RewardPeriodPoolMultipliers = append(p.RewardPeriodPoolMultipliers, &clptypes.PoolMultiplier{PoolMultiplierAsset: t, Multiplier: &z})
				case rng.Intn(4) == 0:
					m := sdk.NewDecWithPrec(int64(rng.Intn(1001)), 2)
					p.RewardPeriodPoolMultipliers = append(p.RewardPeriodPoolMultipliers, &clptypes.PoolMultiplier{PoolMultiplierAsset: t, Multiplier: &m})
				}
			}
			mustOK(e.AddRewardPeriods([]*clptypes.RewardPeriod{p}), "reward period")
			desc["reward_alloc"] = au.String()
		}
		// a third of the worlds: the pools are enabled for margin trading (no positions are opened here): the handlers take
		// their margin branches (pool-health gate of the removals, removal-queue processing of the adds, and the swap fee of
		// an ordinary MsgSwap still follows the per-token overrides)
		if rng.Intn(3) == 0 {
			mp := toks
			if len(toks) > 1 && rng.Intn(3) == 0 {
				mp = toks[:1]
			}
			mustOK(e.Tx(e.Admin, &margintypes.MsgUpdatePools{Signer: e.Admin.Addr.String(), Pools: mp}), "margin pools")
			desc["pools_enabled_for_margin"] = mp
			rep.Count("world.margin-enabled-pools")
		}
		for st := 0; st < o.Steps; st++ {
			if o.LockChanges && rng.Intn(8) == 0 {
				lock := []uint64{0, 1, 2, 5, 50}[rng.Intn(5)]
				cancel := []uint64{0, 1, 2, 5, 50}[rng.Intn(5)]
				cur := e.App.ClpKeeper.GetRewardsParams(e.Ctx())
				mustOK(e.UpdateRewardsParams(lock, cancel, cur.RewardsLockPeriod, cur.RewardsEpochIdentifier, cur.RewardsDistribute), "rewards params")
				rep.Count("admin.lock-change")
			}
			m, sm, signer := genClpMsg(rng, e, toks, o)
			// bech32 also has an all-upper-case spelling of the same address; for the messages that do not look a provider
			// record up by the signer string (create, add, swap, decommission, bucket) the spelling must not matter
			if (m.Tag == 1 || m.Tag == 2 || m.Tag == 5 || m.Tag == 8 || m.Tag == 9) && rng.Intn(12) == 0 {
				if f := reflect.ValueOf(sm).Elem().FieldByName("Signer"); f.IsValid() && f.Kind() == reflect.String {
					f.SetString(strings.ToUpper(f.String()))
					rep.Count("tx.signer-spelled-in-upper-case")
				}
			}
			pre := e.Snapshot()
			fee := chain.E(18)
			res := e.Tx(signer, sm)
			post := e.Snapshot()
			*nextID++
			s := Step{ID: *nextID, Kind: 1, Msg: m, Fee: fee, OK: res.Code == 0, Pre: pre, Post: post, Log: trunc(res.Log, 160), HistID: h, StepNo: st, EnvRef: e, Signer: signer, ChainMsg: sm}
			// an ante failure (fee not charged) is not a handler observation
			if res.Code != 0 && balOf(pre, m.Signer, 0).Cmp(balOf(post, m.Signer, 0)) == 0 {
				rep.Count("tx.ante-failed")
				*nextID--
				continue
			}
			hist.Steps = append(hist.Steps, s)
			rep.Count(fmt.Sprintf("tx.%s.%s", MsgNames[m.Tag], okStr(res.Code == 0)))
			if (st+1)%o.BlockEach == 0 {
				pre := e.Snapshot()
				panicked := e.EndBlock()
				post := e.Snapshot()
				*nextID++
				hist.Steps = append(hist.Steps, Step{ID: *nextID, Kind: 2, OK: !panicked, Pre: pre, Post: post, HistID: h, StepNo: st, EnvRef: e, Log: hookPanicText(e, panicked)})
				rep.Count("hook.EndBlock")
				if panicked {
					rep.Count("hook.EndBlock.panic")
					if d := os.Getenv("VERIF_DUMP_PANICS"); d != "" {
						hist.Env = e
						rp := replayOf(hist, st)
						rp["pre_state_of_the_panicking_hook"] = pre
						bz, _ := json.MarshalIndent(rp, "", " ")
						_ = os.WriteFile(filepath.Join(d, fmt.Sprintf("hookpanic_%d_%d.json", c.Seed, h)), bz, 0o644)
					}
					break
				}
				e.Commit()
				pre = e.Snapshot()
				ep0 := epochNo(e, pre.Params.EpochID)
				panicked = e.BeginBlock()
				post = e.Snapshot()
				pre.Height = post.Height
				*nextID++
				fired := epochNo(e, pre.Params.EpochID) != ep0 || (panicked && pre.Params.EpochID != "")
				if fired {
					rep.Count("hook.BeginBlock.rewards-epoch")
				}
				hist.Steps = append(hist.Steps, Step{ID: *nextID, Kind: 3, OK: !panicked, Epoch: fired, Pre: pre, Post: post, HistID: h, StepNo: st, EnvRef: e})
				rep.Count("hook.BeginBlock")
				if panicked {
					rep.Count("hook.BeginBlock.panic")
					break
				}
			}
		}
		hs = append(hs, hist)
		rep.ImplTraces++
	}
	return hs
}

func okStr(b bool) string {
	if b {
		return "ok"
	}
	return "fail"
}

func trunc(s string, n int) string {
	if len(s) > n {
		return s[:n]
	}
	return s
}

func balOf(s env.ClpState, acct, denom int64) *big.Int {
	for _, b := range s.Balances {
		if b.Acct == acct && b.Denom == denom {
			return b.Amt
		}
	}
	return big.NewInt(0)
}

func poolOf(s env.ClpState, asset int64) *env.Pool {
	for i := range s.Pools {
		if s.Pools[i].Asset == asset {
			return &s.Pools[i]
		}
	}
	return nil
}

func lpOf(s env.ClpState, asset, addr int64) *env.LP {
	for i := range s.LPs {
		if s.LPs[i].Asset == asset && s.LPs[i].Addr == addr {
			return &s.LPs[i]
		}
	}
	return nil
}

func pickWeighted(rng *chain.Rng, w map[int]int) int {
	tot := 0
	for t := 1; t <= 9; t++ {
		tot += w[t]
	}
	x := rng.Intn(tot)
	for t := 1; t <= 9; t++ {
		if x < w[t] {
			return t
		}
		x -= w[t]
	}
	return 5
}

// genClpMsg draws a mostly-valid message given the current state.
func genClpMsg(rng *chain.Rng, e *env.Env, toks []string, o HistOpts) (Msg, sdk.Msg, chain.Account) {
	st := e.Snapshot()
	u := e.Users[rng.Intn(len(e.Users))]
	uid := e.AcctID[u.Addr.String()]
	tok := toks[rng.Intn(len(toks))]
	tid := e.DenomID[tok]
	tag := pickWeighted(rng, o.Weights)
	pool := poolOf(st, tid)
	if pool == nil && (tag == 2 || tag == 3 || tag == 4 || tag == 5) && rng.Intn(6) != 0 {
		tag = 1
	}
	asset := clptypes.NewAsset(tok)
	switch tag {
	case 1:
		n := new(big.Int).Add(chain.E(18), RandAmount(rng, o.MaxExp))
		if rng.Intn(10) == 0 {
			n = RandAmount(rng, 17) // below the threshold
		}
		x := RandAmount(rng, o.MaxExp)
		m := clptypes.NewMsgCreatePool(u.Addr, asset, env.U(n), env.U(x))
		return Msg{Tag: 1, Signer: uid, A: tid, X: n, Y: x}, &m, u
	case 2:
		var n, x *big.Int
		switch rng.Intn(5) {
		case 0:
			n, x = RandAmount(rng, o.MaxExp-2), big.NewInt(0)
		case 1:
			n, x = big.NewInt(0), RandAmount(rng, o.MaxExp-2)
		case 2: // symmetric multiple of the pool
			if pool != nil && pool.NB.Sign() > 0 && pool.EB.Sign() > 0 {
				d := big.NewInt(int64(1 + rng.Intn(1000)))
				n, x = new(big.Int).Div(pool.NB, d), new(big.Int).Div(pool.EB, d)
				break
			}
			fallthrough
		default:
			n, x = RandAmount(rng, o.MaxExp-2), RandAmount(rng, o.MaxExp-2)
		}
		m := clptypes.NewMsgAddLiquidity(u.Addr, asset, env.U(n), env.U(x))
		return Msg{Tag: 2, Signer: uid, A: tid, X: n, Y: x}, &m, u
	case 3:
		u, uid = pickLP(rng, e, st, tid, u, uid)
		w := int64(1 + rng.Intn(10000))
		if rng.Intn(3) == 0 {
			w = 10000
		}
		asym := int64(0)
		if rng.Intn(12) == 0 {
			asym = int64(rng.Intn(20001) - 10000)
		}
		m := clptypes.NewMsgRemoveLiquidity(u.Addr, asset, sdk.NewInt(w), sdk.NewInt(asym))
		return Msg{Tag: 3, Signer: uid, A: tid, X: big.NewInt(w), Y: big.NewInt(asym)}, &m, u
	case 4, 6, 7:
		u, uid = pickLP(rng, e, st, tid, u, uid)
		units := RandAmount(rng, o.MaxExp)
		if lp := lpOf(st, tid, uid); lp != nil && lp.Units.Sign() > 0 {
			switch rng.Intn(4) {
			case 0:
				units = new(big.Int).Set(lp.Units)
			case 1:
				units = new(big.Int).Add(lp.Units, big.NewInt(1))
			default:
				units = new(big.Int).Add(big.NewInt(1), new(big.Int).Rand(rng.Rand, lp.Units))
			}
			if tag == 7 && len(lp.Unlocks) > 0 && rng.Intn(2) == 0 {
				units = new(big.Int).Set(lp.Unlocks[rng.Intn(len(lp.Unlocks))].Units)
			}
			if tag == 4 && len(lp.Unlocks) > 0 && rng.Intn(2) == 0 {
				units = new(big.Int).Set(lp.Unlocks[0].Units)
			}
		}
		switch tag {
		case 4:
			m := clptypes.NewMsgRemoveLiquidityUnits(u.Addr, asset, env.U(units))
			return Msg{Tag: 4, Signer: uid, A: tid, X: units}, &m, u
		case 6:
			m := clptypes.MsgUnlockLiquidityRequest{Signer: u.Addr.String(), ExternalAsset: &asset, Units: env.U(units)}
			return Msg{Tag: 6, Signer: uid, A: tid, X: units}, &m, u
		default:
			m := clptypes.MsgCancelUnlock{Signer: u.Addr.String(), ExternalAsset: &asset, Units: env.U(units)}
			return Msg{Tag: 7, Signer: uid, A: tid, X: units}, &m, u
		}
	case 5:
		from, to := "rowan", tok
		switch rng.Intn(3) {
		case 1:
			from, to = tok, "rowan"
		case 2:
			if len(toks) > 1 {
				from, to = tok, toks[rng.Intn(len(toks))]
			}
		}
		amt := RandAmount(rng, o.MaxExp)
		min := big.NewInt(0)
		if rng.Intn(3) == 0 {
			min = RandAmount(rng, o.MaxExp)
		}
		m := clptypes.NewMsgSwap(u.Addr, clptypes.NewAsset(from), clptypes.NewAsset(to), env.U(amt), env.U(min))
		return Msg{Tag: 5, Signer: uid, A: e.DenomID[from], B: e.DenomID[to], X: amt, Y: min}, &m, u
	case 8:
		if o.Whitelist && rng.Intn(4) != 0 {
			u = e.Users[0]
			uid = e.AcctID[u.Addr.String()]
		}
		m := clptypes.NewMsgDecommissionPool(u.Addr, tok)
		return Msg{Tag: 8, Signer: uid, A: tid}, &m, u
	default:
		var coins sdk.Coins
		var cs [][2]*big.Int
		for _, d := range append([]string{"rowan"}, toks...) {
			if rng.Intn(2) == 0 {
				a := RandAmount(rng, 24)
				coins = append(coins, sdk.NewCoin(d, sdk.NewIntFromBigInt(a)))
				cs = append(cs, [2]*big.Int{big.NewInt(e.DenomID[d]), a})
			}
		}
		if len(coins) == 0 {
			a := RandAmount(rng, 24)
			coins = sdk.NewCoins(sdk.NewCoin("rowan", sdk.NewIntFromBigInt(a)))
			cs = [][2]*big.Int{{big.NewInt(0), a}}
		}
		coins = coins.Sort()
		// the model applies coins in denom-id order = sorted denom order only if rowan sorts consistently; keep the Coins order
		cs = nil
		for _, cn := range coins {
			cs = append(cs, [2]*big.Int{big.NewInt(e.DenomID[cn.Denom]), new(big.Int).Set(cn.Amount.BigInt())})
		}
		m := clptypes.NewMsgAddLiquidityToRewardsBucketRequest(u.Addr.String(), coins)
		return Msg{Tag: 9, Signer: uid, Coins: cs}, m, u
	}
}

// pickLP prefers an account that actually provides liquidity to the pool.
func pickLP(rng *chain.Rng, e *env.Env, st env.ClpState, tid int64, u chain.Account, uid int64) (chain.Account, int64) {
	if rng.Intn(5) == 0 {
		return u, uid
	}
	var cands []int64
	for _, l := range st.LPs {
		if l.Asset == tid {
			cands = append(cands, l.Addr)
		}
	}
	if len(cands) == 0 {
		return u, uid
	}
	id := cands[rng.Intn(len(cands))]
	for _, a := range e.Users {
		if e.AcctID[a.Addr.String()] == id {
			return a, id
		}
	}
	return u, uid
}

// Recorder helpers for scripted (corpus) histories -------------------------------------------

func recTx(h *History, nextID *int, stepNo int, u chain.Account, m Msg, sm sdk.Msg) chain.TxResult {
	e := h.Env
	pre := e.Snapshot()
	res := e.Tx(u, sm)
	post := e.Snapshot()
	*nextID++
	h.Steps = append(h.Steps, Step{ID: *nextID, Kind: 1, Msg: m, Fee: chain.E(18), OK: res.Code == 0, Pre: pre, Post: post, Log: trunc(res.Log, 160),
		HistID: h.ID, StepNo: stepNo, EnvRef: e, Signer: u, ChainMsg: sm})
	return res
}

func recBlock(h *History, nextID *int, stepNo int) {
	e := h.Env
	pre := e.Snapshot()
	panicked := e.EndBlock()
	post := e.Snapshot()
	*nextID++
	h.Steps = append(h.Steps, Step{ID: *nextID, Kind: 2, OK: !panicked, Pre: pre, Post: post, HistID: h.ID, StepNo: stepNo, EnvRef: e, Log: hookPanicText(e, panicked)})
	e.Commit()
	pre = e.Snapshot()
	ep0 := epochNo(e, pre.Params.EpochID)
	panicked = e.BeginBlock()
	post = e.Snapshot()
	pre.Height = post.Height
	*nextID++
	fired := epochNo(e, pre.Params.EpochID) != ep0 || (panicked && pre.Params.EpochID != "")
	h.Steps = append(h.Steps, Step{ID: *nextID, Kind: 3, OK: !panicked, Epoch: fired, Pre: pre, Post: post, HistID: h.ID, StepNo: stepNo, EnvRef: e})
}

// ScriptF14: corpus history reproducing finding F-14 (add into a pool whose native side LPPD emptied).
func ScriptF14(nextID *int) History {
	e := env.New(env.Opts{NUsers: 3, Tokens: []string{"ceth"}})
	h := History{ID: 9014, Env: e, Desc: map[string]interface{}{"corpus": "F-14", "tokens": []string{"ceth"}, "lppd_rate": "1.0"}}
	e.BeginBlock()
	mustOK(e.UpdateRewardsParams(0, 0, 0, "", false), "rewards params")
	tid := e.DenomID["ceth"]
	asset := clptypes.NewAsset("ceth")
	u0, u1, u2 := e.Users[0], e.Users[1], e.Users[2]
	id := func(a chain.Account) int64 { return e.AcctID[a.Addr.String()] }
	n, x := new(big.Int).Mul(big.NewInt(1000), chain.E(18)), new(big.Int).Mul(big.NewInt(2000), chain.E(18))
	m1 := clptypes.NewMsgCreatePool(u0.Addr, asset, env.U(n), env.U(x))
	recTx(&h, nextID, 0, u0, Msg{Tag: 1, Signer: id(u0), A: tid, X: n, Y: x}, &m1)
	m2 := clptypes.NewMsgAddLiquidity(u1.Addr, asset, env.U(n), env.U(x))
	recTx(&h, nextID, 1, u1, Msg{Tag: 2, Signer: id(u1), A: tid, X: n, Y: x}, &m2)
	st := uint64(e.Height)
	mustOK(e.AddLppdPeriods([]*clptypes.ProviderDistributionPeriod{{DistributionPeriodBlockRate: sdk.OneDec(), DistributionPeriodStartBlock: st,
		DistributionPeriodEndBlock: st + 1, DistributionPeriodMod: 1}}), "lppd")
	recBlock(&h, nextID, 2)
	a, b := big.NewInt(5000), big.NewInt(7000)
	m3 := clptypes.NewMsgAddLiquidity(u2.Addr, asset, env.U(a), env.U(b))
	recTx(&h, nextID, 3, u2, Msg{Tag: 2, Signer: id(u2), A: tid, X: a, Y: b}, &m3)
	return h
}

// ScriptZeroUnitProvider: corpus history — a provider record without units. The pool's external depth is twice its units,
// so adding one base unit of the external token mints 1e18 * 1 / 2e18 = 0 units, yet the record is created. The creator
// then shrinks the pool below the decommission threshold and the whitelisted account decommissions it: every provider
// record of the pool must be gone with the pool (or the pool must stay).
func ScriptZeroUnitProvider(nextID *int) History {
	u0addr := chain.NewAccount("user0").Addr.String()
	e := env.New(env.Opts{NUsers: 3, Tokens: []string{"cusdc"}, Transform: func(g *chain.Genesis) { g.Transform = whitelistTransform(u0addr) }})
	h := History{ID: 9025, Env: e, Desc: map[string]interface{}{"corpus": "provider record with 0 units, then decommission", "tokens": []string{"cusdc"}, "decommission_whitelist": "user0"}}
	e.BeginBlock()
	mustOK(e.UpdateRewardsParams(0, 0, 0, "", false), "rewards params")
	tid := e.DenomID["cusdc"]
	asset := clptypes.NewAsset("cusdc")
	u0, u1 := e.Users[0], e.Users[1]
	id := func(a chain.Account) int64 { return e.AcctID[a.Addr.String()] }
	n, x := chain.E(18), new(big.Int).Mul(big.NewInt(2), chain.E(18))
	m1 := clptypes.NewMsgCreatePool(u0.Addr, asset, env.U(n), env.U(x))
	recTx(&h, nextID, 0, u0, Msg{Tag: 1, Signer: id(u0), A: tid, X: n, Y: x}, &m1)
	zero, one := big.NewInt(0), big.NewInt(1)
	m2 := clptypes.NewMsgAddLiquidity(u1.Addr, asset, env.U(zero), env.U(one))
	recTx(&h, nextID, 1, u1, Msg{Tag: 2, Signer: id(u1), A: tid, X: zero, Y: one}, &m2)
	m3 := clptypes.NewMsgRemoveLiquidity(u0.Addr, asset, sdk.NewInt(6000), sdk.ZeroInt())
	recTx(&h, nextID, 2, u0, Msg{Tag: 3, Signer: id(u0), A: tid, X: big.NewInt(6000), Y: zero}, &m3)
	recBlock(&h, nextID, 3)
	m4 := clptypes.NewMsgDecommissionPool(u0.Addr, "cusdc")
	recTx(&h, nextID, 4, u0, Msg{Tag: 8, Signer: id(u0), A: tid}, &m4)
	// the provider without units tries to leave
	m5 := clptypes.NewMsgRemoveLiquidity(u1.Addr, asset, sdk.NewInt(10000), sdk.ZeroInt())
	recTx(&h, nextID, 5, u1, Msg{Tag: 3, Signer: id(u1), A: tid, X: big.NewInt(10000), Y: zero}, &m5)
	recBlock(&h, nextID, 6)
	return h
}

// ScriptDust: two providers, a large external->native swap so that one pool unit is worth less than
// half a base unit on both sides, then dust removals (1 unit / 1 basis point) — removals that pay nothing.
func ScriptDust(rng *chain.Rng, hid int, nextID *int) History {
	e := env.New(env.Opts{NUsers: 3, Tokens: []string{"cusdc"}})
	h := History{ID: hid, Env: e, Desc: map[string]interface{}{"template": "dust-removal", "tokens": []string{"cusdc"}}}
	e.BeginBlock()
	mustOK(e.UpdateRewardsParams(0, 0, 0, "", false), "rewards params")
	tid := e.DenomID["cusdc"]
	asset := clptypes.NewAsset("cusdc")
	u0, u1, u2 := e.Users[0], e.Users[1], e.Users[2]
	id := func(a chain.Account) int64 { return e.AcctID[a.Addr.String()] }
	n := new(big.Int).Mul(big.NewInt(int64(1+rng.Intn(2000))), chain.E(18))
	x := new(big.Int).Mul(big.NewInt(int64(1+rng.Intn(2000))), chain.E(int64(3+rng.Intn(6))))
	m1 := clptypes.NewMsgCreatePool(u0.Addr, asset, env.U(n), env.U(x))
	recTx(&h, nextID, 0, u0, Msg{Tag: 1, Signer: id(u0), A: tid, X: n, Y: x}, &m1)
	n2, x2 := new(big.Int).Div(n, big.NewInt(int64(1+rng.Intn(4)))), new(big.Int).Div(x, big.NewInt(int64(1+rng.Intn(4))))
	m2 := clptypes.NewMsgAddLiquidity(u1.Addr, asset, env.U(n2), env.U(x2))
	recTx(&h, nextID, 1, u1, Msg{Tag: 2, Signer: id(u1), A: tid, X: n2, Y: x2}, &m2)
	// buy most of the rowan
	amt := new(big.Int).Mul(x, big.NewInt(int64(2+rng.Intn(6))))
	m3 := clptypes.NewMsgSwap(u2.Addr, asset, clptypes.NewAsset("rowan"), env.U(amt), env.U(big.NewInt(0)))
	recTx(&h, nextID, 2, u2, Msg{Tag: 5, Signer: id(u2), A: tid, B: 0, X: amt, Y: big.NewInt(0)}, &m3)
	for i := 0; i < 3; i++ {
		u := []chain.Account{u0, u1}[rng.Intn(2)]
		if rng.Intn(2) == 0 {
			units := big.NewInt(int64(1 + rng.Intn(2)))
			m := clptypes.NewMsgRemoveLiquidityUnits(u.Addr, asset, env.U(units))
			recTx(&h, nextID, 3+i, u, Msg{Tag: 4, Signer: id(u), A: tid, X: units}, &m)
		} else {
			m := clptypes.NewMsgRemoveLiquidity(u.Addr, asset, sdk.NewInt(1), sdk.NewInt(0))
			recTx(&h, nextID, 3+i, u, Msg{Tag: 3, Signer: id(u), A: tid, X: big.NewInt(1), Y: big.NewInt(0)}, &m)
		}
	}
	return h
}

// epochNo returns the current epoch number of the identified epoch (-1 if there is none).
func epochNo(e *env.Env, id string) int64 {
	if id == "" {
		return -1
	}
	info, found := e.App.EpochsKeeper.GetEpochInfo(e.Ctx(), id)
	if !found {
		return -1
	}
	return info.CurrentEpoch
}

// ScriptF2: corpus history for finding F-2 — rewards bucket paid to wallets; provider units 1:1:4 and a
// bucket of 6e18: each 18-digit share rounds up, the three payouts total 6e18+6.
func ScriptF2(nextID *int) History {
	e := env.New(env.Opts{NUsers: 4, Tokens: []string{"ceth"}})
	h := History{ID: 9002, Env: e, Desc: map[string]interface{}{"corpus": "F-2", "tokens": []string{"ceth"}, "rewards_to_wallet": true, "units": "1:1:4", "bucket": "6e18"}}
	e.BlockStep = 25 * time.Minute
	e.BeginBlock()
	mustOK(e.UpdateRewardsParams(0, 0, 0, "hour", true), "rewards params")
	tid := e.DenomID["ceth"]
	asset := clptypes.NewAsset("ceth")
	id := func(a chain.Account) int64 { return e.AcctID[a.Addr.String()] }
	n := new(big.Int).Mul(big.NewInt(1000), chain.E(18))
	m1 := clptypes.NewMsgCreatePool(e.Users[0].Addr, asset, env.U(n), env.U(n))
	recTx(&h, nextID, 0, e.Users[0], Msg{Tag: 1, Signer: id(e.Users[0]), A: tid, X: n, Y: n}, &m1)
	m2 := clptypes.NewMsgAddLiquidity(e.Users[1].Addr, asset, env.U(n), env.U(n))
	recTx(&h, nextID, 1, e.Users[1], Msg{Tag: 2, Signer: id(e.Users[1]), A: tid, X: n, Y: n}, &m2)
	n4 := new(big.Int).Mul(big.NewInt(4000), chain.E(18))
	m3 := clptypes.NewMsgAddLiquidity(e.Users[2].Addr, asset, env.U(n4), env.U(n4))
	recTx(&h, nextID, 2, e.Users[2], Msg{Tag: 2, Signer: id(e.Users[2]), A: tid, X: n4, Y: n4}, &m3)
	six := new(big.Int).Mul(big.NewInt(6), chain.E(18))
	coins := sdk.NewCoins(sdk.NewCoin("ceth", sdk.NewIntFromBigInt(six)))
	m4 := clptypes.NewMsgAddLiquidityToRewardsBucketRequest(e.Users[3].Addr.String(), coins)
	recTx(&h, nextID, 3, e.Users[3], Msg{Tag: 9, Signer: id(e.Users[3]), Coins: [][2]*big.Int{{big.NewInt(tid), six}}}, m4)
	for i := 0; i < 4; i++ {
		recBlock(&h, nextID, 4+i)
	}
	return h
}

// ScriptReinvestDry: corpus history — rewards bucket re-invested into the pool (RewardsDistribute=false) with provider
// units 4:1:1 and a bucket of 6e18: the three 18-digit shares round up, the bucket runs dry on the last provider and
// SubtractFromRewardsBucket fails for it (only logged).
func ScriptReinvestDry(nextID *int) History {
	e := env.New(env.Opts{NUsers: 4, Tokens: []string{"ceth"}})
	h := History{ID: 9022, Env: e, Desc: map[string]interface{}{"corpus": "re-invested bucket runs dry", "tokens": []string{"ceth"}, "rewards_to_wallet": false, "units": "4:1:1", "bucket": "6e18"}}
	e.BlockStep = 25 * time.Minute
	e.BeginBlock()
	mustOK(e.UpdateRewardsParams(0, 0, 0, "hour", false), "rewards params")
	tid := e.DenomID["ceth"]
	asset := clptypes.NewAsset("ceth")
	id := func(a chain.Account) int64 { return e.AcctID[a.Addr.String()] }
	n4 := new(big.Int).Mul(big.NewInt(4), chain.E(18))
	n1 := chain.E(18)
	m1 := clptypes.NewMsgCreatePool(e.Users[0].Addr, asset, env.U(n4), env.U(n4))
	recTx(&h, nextID, 0, e.Users[0], Msg{Tag: 1, Signer: id(e.Users[0]), A: tid, X: n4, Y: n4}, &m1)
	for i, u := range e.Users[1:3] {
		m2 := clptypes.NewMsgAddLiquidity(u.Addr, asset, env.U(n1), env.U(n1))
		recTx(&h, nextID, 1+i, u, Msg{Tag: 2, Signer: id(u), A: tid, X: n1, Y: n1}, &m2)
	}
	six := new(big.Int).Mul(big.NewInt(6), chain.E(18))
	coins := sdk.NewCoins(sdk.NewCoin("ceth", sdk.NewIntFromBigInt(six)))
	m4 := clptypes.NewMsgAddLiquidityToRewardsBucketRequest(e.Users[3].Addr.String(), coins)
	recTx(&h, nextID, 3, e.Users[3], Msg{Tag: 9, Signer: id(e.Users[3]), Coins: [][2]*big.Int{{big.NewInt(tid), six}}}, m4)
	for i := 0; i < 4; i++ {
		recBlock(&h, nextID, 4+i)
	}
	return h
}

// ScriptReinvestSix: corpus history — six providers with equal units, a bucket of 6e18 re-invested at the epoch end (each
// share is 0.166666666666666667: six amounts of 1e18+2, so the bucket cannot pay the last one), followed by a
// provider-distribution period: whatever the epoch hook did to the last provider, the later payout must still be pro rata.
func ScriptReinvestSix(nextID *int) History {
	e := env.New(env.Opts{NUsers: 7, Tokens: []string{"ceth"}})
	h := History{ID: 9026, Env: e, Desc: map[string]interface{}{"corpus": "re-invested bucket, six equal providers, then a provider distribution", "tokens": []string{"ceth"}, "rewards_to_wallet": false, "bucket": "6e18"}}
	e.BlockStep = 25 * time.Minute
	e.BeginBlock()
	mustOK(e.UpdateRewardsParams(0, 0, 0, "hour", false), "rewards params")
	tid := e.DenomID["ceth"]
	asset := clptypes.NewAsset("ceth")
	id := func(a chain.Account) int64 { return e.AcctID[a.Addr.String()] }
	n1 := chain.E(18)
	m1 := clptypes.NewMsgCreatePool(e.Users[0].Addr, asset, env.U(n1), env.U(n1))
	recTx(&h, nextID, 0, e.Users[0], Msg{Tag: 1, Signer: id(e.Users[0]), A: tid, X: n1, Y: n1}, &m1)
	for i, u := range e.Users[1:6] {
		m2 := clptypes.NewMsgAddLiquidity(u.Addr, asset, env.U(n1), env.U(n1))
		recTx(&h, nextID, 1+i, u, Msg{Tag: 2, Signer: id(u), A: tid, X: n1, Y: n1}, &m2)
	}
	six := new(big.Int).Mul(big.NewInt(6), chain.E(18))
	coins := sdk.NewCoins(sdk.NewCoin("ceth", sdk.NewIntFromBigInt(six)))
	m4 := clptypes.NewMsgAddLiquidityToRewardsBucketRequest(e.Users[6].Addr.String(), coins)
	recTx(&h, nextID, 6, e.Users[6], Msg{Tag: 9, Signer: id(e.Users[6]), Coins: [][2]*big.Int{{big.NewInt(tid), six}}}, m4)
	for i := 0; i < 4; i++ {
		recBlock(&h, nextID, 7+i)
	}
	st := uint64(e.Height)
	mustOK(e.AddLppdPeriods([]*clptypes.ProviderDistributionPeriod{{DistributionPeriodBlockRate: sdk.NewDecWithPrec(1, 2), DistributionPeriodStartBlock: st,
		DistributionPeriodEndBlock: st + 2, DistributionPeriodMod: 1}}), "lppd")
	for i := 0; i < 3; i++ {
		recBlock(&h, nextID, 11+i)
	}
	return h
}

// hookPanicText: what a block hook panicked with (empty when it did not)
func hookPanicText(e *env.Env, panicked bool) string {
	if !panicked {
		return ""
	}
	return trunc(fmt.Sprint(e.HookPanic), 300)
}
