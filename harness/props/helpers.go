package props

import (
	sifapp "github.com/Sifchain/sifnode/app"
	clptypes "github.com/Sifchain/sifnode/x/clp/types"
	tokenregistrytypes "github.com/Sifchain/sifnode/x/tokenregistry/types"
)

func permOf(p int32) tokenregistrytypes.Permission { return tokenregistrytypes.Permission(p) }

// whitelistTransform puts addr on the clp address whitelist (pool decommissioning).
func whitelistTransform(addr string) func(app *sifapp.SifchainApp, gs sifapp.GenesisState) sifapp.GenesisState {
	return func(app *sifapp.SifchainApp, gs sifapp.GenesisState) sifapp.GenesisState {
		var cg clptypes.GenesisState
		app.AppCodec().MustUnmarshalJSON(gs[clptypes.ModuleName], &cg)
		cg.AddressWhitelist = append(cg.AddressWhitelist, addr)
		gs[clptypes.ModuleName] = app.AppCodec().MustMarshalJSON(&cg)
		return gs
	}
}
