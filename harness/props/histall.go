package props

import (
	"fmt"

	"sifverif/chain"
	"sifverif/report"
)

var DefaultWeights = map[int]int{1: 2, 2: 6, 3: 4, 4: 4, 5: 8, 6: 3, 7: 2, 8: 1, 9: 2}

func writeHistFiles(c Ctx, rep *report.Report, prefix string, hs []History, per int) {
	var all []Step
	for _, h := range hs {
		all = append(all, h.Steps...)
	}
	for s := 0; s*per < len(all); s++ {
		end := (s + 1) * per
		if end > len(all) {
			end = len(all)
		}
		var items []string
		for _, st := range all[s*per : end] {
			items = append(items, st.Enc())
			rep.CaseIndex[fmt.Sprint(st.ID)] = st.JSON()
		}
		writeCases(c, rep, fmt.Sprintf("%s_%d.v", prefix, s), "From Sif Require Import Check.ClpHist.\n",
			fmt.Sprintf("Definition cases : list (list int) := %s.\nDefinition M := Eval vm_compute in (hist_mismatches cases).\n", coqList(items)))
	}
}

// HistAll: development aid — clp histories, no monitors.
func HistAll(c Ctx) *report.Report {
	rep := report.New("HIST", c.Seed, c.Tier)
	rng := chain.NewRng(c.Seed)
	next := 0
	hs := RunClpHistories(c, rep, rng, HistOpts{Histories: c.N(30, 500), Steps: 30, Tokens: []string{"cdash", "ceth", "cusdc"}, Users: 4,
		Weights: DefaultWeights, Locks: true, Lppd: true, Rewards: true, Fees: true, Pmtp: true, Whitelist: true}, &next)
	rep.Evaluations = next
	writeHistFiles(c, rep, "cases_HIST", hs, 400)
	return rep
}
