package props

import (
	"fmt"
	"math/big"

	"sifverif/env"
	"sifverif/report"
)

func recorded(s env.ClpState, denom int64) *big.Int {
	t := new(big.Int)
	for _, p := range s.Pools {
		if denom == 0 {
			t.Add(t, p.NB)
			t.Add(t, p.NC)
		}
		if p.Asset == denom {
			t.Add(t, p.EB)
			t.Add(t, p.EC)
		}
	}
	for _, b := range s.Buckets {
		if b.Denom == denom {
			t.Add(t, b.Amt)
		}
	}
	return t
}

func gap(s env.ClpState, denom int64) *big.Int {
	return new(big.Int).Sub(balOf(s, env.ClpModuleID, denom), recorded(s, denom))
}

func nLPs(s env.ClpState, asset int64) int64 {
	n := int64(0)
	for _, l := range s.LPs {
		if l.Asset == asset {
			n++
		}
	}
	return n
}

func stepRef(s Step) map[string]interface{} { return s.JSON() }

// replayOf returns the history prefix up to and including step st as a replay document.
func replayOf(h History, upto int) map[string]interface{} {
	var steps []interface{}
	for _, s := range h.Steps {
		if s.StepNo > upto {
			break
		}
		steps = append(steps, s.JSON())
	}
	return map[string]interface{}{"setup": h.Desc, "steps": steps}
}

// MonSolvency — C01: module balance = pools + custody + buckets (+ decommission remainder), every step.
func MonSolvency(rep *report.Report, h History) {
	nd := int64(len(h.Env.DenomID))
	for _, s := range h.Steps {
		for d := int64(0); d < nd; d++ {
			g0, g1 := gap(s.Pre, d), gap(s.Post, d)
			if g1.Sign() < 0 {
				rep.Violate(fmt.Sprintf("C01/uncovered/%s", stepKind(s)), fmt.Sprintf("denom %d: module holds %s less than recorded after %s", d, new(big.Int).Neg(g1), stepKind(s)), replayOf(h, s.StepNo))
				continue
			}
			if g0.Cmp(g1) == 0 {
				continue
			}
			delta := new(big.Int).Sub(g1, g0)
			if s.Kind == 1 && s.Msg.Tag == 8 && s.OK && (d == 0 || d == s.Msg.A) {
				// decommission: only the rounding remainder may stay behind: per provider one base unit plus the
				// 18-digit quotient error of CalculateWithdrawal (two Dec quotients: < 1e-17 of the side's depth)
				n := nLPs(s.Pre, s.Msg.A)
				pp := poolOf(s.Pre, s.Msg.A)
				depth := new(big.Int)
				if pp != nil {
					if d == 0 {
						depth.Add(pp.NB, pp.NL)
					} else {
						depth.Add(pp.EB, pp.EL)
					}
				}
				tol := new(big.Int).Mul(big.NewInt(n), new(big.Int).Add(big.NewInt(2), new(big.Int).Div(depth, bigE(17))))
				if pp != nil {
					if d == 0 {
						tol.Add(tol, pp.NC)
					} else {
						tol.Add(tol, pp.EC)
					}
				}
				if delta.Sign() >= 0 && delta.Cmp(tol) <= 0 {
					continue
				}
				rep.Violate("C01/decommission-remainder", fmt.Sprintf("denom %d: decommission left %s unrecorded coins in the module (providers: %d)", d, delta, n), replayOf(h, s.StepNo))
				continue
			}
			rep.Violate(fmt.Sprintf("C01/diverged/%s", stepKind(s)), fmt.Sprintf("denom %d: balance minus recorded changed by %s in %s", d, delta, stepKind(s)), replayOf(h, s.StepNo))
		}
	}
}

func stepKind(s Step) string {
	switch s.Kind {
	case 1:
		return MsgNames[s.Msg.Tag]
	case 2:
		return "EndBlock"
	}
	return "BeginBlock"
}

// MonUnits — C02: pool units = sum of provider units; every provider belongs to a pool; removal bounds.
func MonUnits(rep *report.Report, h History) {
	bad := map[int64]bool{} // pools whose unit accounting already diverged earlier in this history
	for _, s := range h.Steps {
		st := s.Post
		sums := map[int64]*big.Int{}
		for _, l := range st.LPs {
			if sums[l.Asset] == nil {
				sums[l.Asset] = new(big.Int)
			}
			sums[l.Asset].Add(sums[l.Asset], l.Units)
			if poolOf(st, l.Asset) == nil {
				rep.Violate("C02/orphan-provider/"+stepKind(s), fmt.Sprintf("provider %d of asset %d has no pool after %s", l.Addr, l.Asset, stepKind(s)), replayOf(h, s.StepNo))
			}
		}
		for _, p := range st.Pools {
			sm := sums[p.Asset]
			if sm == nil {
				sm = new(big.Int)
			}
			if sm.Cmp(p.Units) != 0 {
				if bad[p.Asset] {
					continue // consequence of a divergence already reported
				}
				bad[p.Asset] = true
				sig := "C02/units-mismatch/" + stepKind(s)
				if pp := poolOf(s.Pre, p.Asset); pp != nil && s.Kind == 1 && s.Msg.Tag == 2 && s.Msg.A == p.Asset && pp.Units.Sign() > 0 &&
					(new(big.Int).Add(pp.NB, pp.NL).Sign() == 0 || new(big.Int).Add(pp.EB, pp.EL).Sign() == 0) {
					sig = "C02/units-mismatch/add-to-one-sided-pool"
				}
				rep.Violate(sig, fmt.Sprintf("pool %d units %s but providers hold %s after %s", p.Asset, p.Units, sm, stepKind(s)), replayOf(h, s.StepNo))
			}
		}
		for a := range bad {
			if poolOf(st, a) == nil {
				delete(bad, a)
			}
		}
		// removal: burned units <= holdings, payout <= pro-rata share (+1 base unit, +1e-15 relative)
		if s.Kind == 1 && s.OK && (s.Msg.Tag == 3 || s.Msg.Tag == 4) {
			pre, post := poolOf(s.Pre, s.Msg.A), poolOf(s.Post, s.Msg.A)
			lpre := lpOf(s.Pre, s.Msg.A, s.Msg.Signer)
			if pre == nil || post == nil || lpre == nil || bad[s.Msg.A] {
				continue
			}
			lpost := lpOf(s.Post, s.Msg.A, s.Msg.Signer)
			left := new(big.Int)
			if lpost != nil {
				left = lpost.Units
			}
			burned := new(big.Int).Sub(lpre.Units, left)
			poolBurn := new(big.Int).Sub(pre.Units, post.Units)
			if burned.Cmp(poolBurn) != 0 || burned.Sign() < 0 || burned.Cmp(lpre.Units) > 0 {
				rep.Violate("C02/burn-mismatch", fmt.Sprintf("provider burned %s, pool burned %s, held %s", burned, poolBurn, lpre.Units), replayOf(h, s.StepNo))
			}
			for side := 0; side < 2; side++ {
				var depth, out *big.Int
				if side == 0 {
					depth = new(big.Int).Add(pre.NB, pre.NL)
					out = new(big.Int).Sub(pre.NB, post.NB)
				} else {
					depth = new(big.Int).Add(pre.EB, pre.EL)
					out = new(big.Int).Sub(pre.EB, post.EB)
				}
				// out <= depth*burned/P * (1+1e-15) + 1   <=>  (out-1) * P * 1e15 <= depth*burned*(1e15+1)
				lhs := new(big.Int).Mul(new(big.Int).Sub(out, big.NewInt(1)), new(big.Int).Mul(pre.Units, bigE(15)))
				rhs := new(big.Int).Mul(new(big.Int).Mul(depth, burned), new(big.Int).Add(bigE(15), big.NewInt(1)))
				if lhs.Cmp(rhs) > 0 {
					rep.Violate("C02/payout-exceeds-share", fmt.Sprintf("side %d: paid %s for %s of %s units of depth %s", side, out, burned, pre.Units, depth), replayOf(h, s.StepNo))
				}
			}
			// the remover received what the pool gave up
			dn := new(big.Int).Sub(balOf(s.Post, s.Msg.Signer, 0), balOf(s.Pre, s.Msg.Signer, 0))
			dn.Add(dn, s.Fee)
			de := new(big.Int).Sub(balOf(s.Post, s.Msg.Signer, s.Msg.A), balOf(s.Pre, s.Msg.Signer, s.Msg.A))
			if dn.Cmp(new(big.Int).Sub(pre.NB, post.NB)) != 0 || de.Cmp(new(big.Int).Sub(pre.EB, post.EB)) != 0 {
				rep.Violate("C02/payout-not-to-remover", fmt.Sprintf("remover got (%s,%s), pool gave (%s,%s)", dn, de, new(big.Int).Sub(pre.NB, post.NB), new(big.Int).Sub(pre.EB, post.EB)), replayOf(h, s.StepNo))
			}
		}
	}
}

func bigE(n int64) *big.Int { return new(big.Int).Exp(big.NewInt(10), big.NewInt(n), nil) }

// stateUnchangedExceptFee: a failed transaction changes nothing but the fee.
func stateUnchangedExceptFee(s Step) bool {
	a := (&env.Enc{}).Clp(s.Pre).Coq()
	p := s.Post
	// add the fee back
	q := p
	q.Balances = append([]env.Bal{}, p.Balances...)
	found := false
	for i := range q.Balances {
		if q.Balances[i].Acct == s.Msg.Signer && q.Balances[i].Denom == 0 {
			q.Balances[i].Amt = new(big.Int).Add(q.Balances[i].Amt, s.Fee)
			found = true
		}
	}
	if !found {
		return false
	}
	return a == (&env.Enc{}).Clp(q).Coq()
}
