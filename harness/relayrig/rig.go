// Package relayrig runs the relayer's real scanning loop (EthereumSub.Start) against in-process fake endpoints:
// an Ethereum JSON-RPC node served by go-ethereum's own rpc.Server over a websocket on localhost, and a Tendermint
// client that decodes broadcast transactions. A child process plays one segment of a scenario (up to a kill, which
// is a hard os.Exit without any clean-up, LevelDB left as it is) and appends what the loop did to a trace file.
package relayrig

import (
	"context"
	"encoding/json"
	"fmt"
	"io"
	"math/big"
	"net"
	"net/http"
	"os"
	"strings"
	"sync"
	"time"

	sifapp "github.com/Sifchain/sifnode/app"
	"github.com/Sifchain/sifnode/cmd/ebrelayer/contract"
	"github.com/Sifchain/sifnode/cmd/ebrelayer/relayer"
	"github.com/Sifchain/sifnode/cmd/ebrelayer/txs"
	ethbridgetypes "github.com/Sifchain/sifnode/x/ethbridge/types"
	"github.com/cosmos/cosmos-sdk/client"
	"github.com/cosmos/cosmos-sdk/client/flags"
	"github.com/cosmos/cosmos-sdk/client/tx"
	sdk "github.com/cosmos/cosmos-sdk/types"
	"github.com/ethereum/go-ethereum/common"
	"github.com/ethereum/go-ethereum/common/hexutil"
	ethtypes "github.com/ethereum/go-ethereum/core/types"
	"github.com/ethereum/go-ethereum/rpc"
	"github.com/syndtr/goleveldb/leveldb"
	abci "github.com/tendermint/tendermint/abci/types"
	tmlog "github.com/tendermint/tendermint/libs/log"
	rpcclient "github.com/tendermint/tendermint/rpc/client"
	ctypes "github.com/tendermint/tendermint/rpc/core/types"
	tmrpcserver "github.com/tendermint/tendermint/rpc/jsonrpc/server"
	tmrpctypes "github.com/tendermint/tendermint/rpc/jsonrpc/types"
	tmtypes "github.com/tendermint/tendermint/types"
	"go.uber.org/zap"
)

const (
	DBKey      = "ethereumLastProcessedBlock"
	mnemonic   = "race draft rival universe maid cheese steel logic crowd fork comic easy truth drift tomorrow eye buddy head time cash swing swift midnight borrow"
	valName    = "verifval"
	ethPrivKey = "0101010101010101010101010101010101010101010101010101010101010101"
)

var (
	registryAddr = common.HexToAddress("0x00000000000000000000000000000000000000aa")
	bankAddr     = common.HexToAddress("0x00000000000000000000000000000000000000bb")
	senderAddr   = common.HexToAddress("0x00000000000000000000000000000000000000cc")
)

// Scenario: the chain (events per block) and the schedule of one segment.
type Step struct {
	Kind string `json:"kind"` // "head"
	N    int64  `json:"n"`
	// what happens to the log query of this header: "ok", "fail" (the node answers with an error), "kill" (the
	// process dies on receipt of the request)
	Query string `json:"query"`
	// when the range has events: "none", "kill_before_submit" (die when the broadcast arrives, before recording it),
	// "kill_in_submit" (record the claims, then die before acknowledging), "kill_after_submit" (die during the sleep that follows)
	Submit string `json:"submit"`
}

type Scenario struct {
	Events  map[int64][]int64 `json:"events"` // block -> event nonces
	Steps   []Step            `json:"steps"`
	DBDir   string            `json:"db_dir"`
	Trace   string            `json:"trace"`
	StartAt int               `json:"start_at"` // index of the first step of this segment
	// Cosmos: the relayer's other listener (CosmosSub.Start) runs on the same LevelDB against a fake Tendermint node that
	// announces one Sifchain block (height 100000 + step) after every step, as in the real relayer process
	Cosmos bool `json:"cosmos"`
}

type tracer struct {
	mu sync.Mutex
	f  *os.File
}

func (t *tracer) line(format string, a ...interface{}) {
	t.mu.Lock()
	defer t.mu.Unlock()
	fmt.Fprintf(t.f, format+"\n", a...)
	_ = t.f.Sync()
}

// ---- fake Ethereum node ----------------------------------------------------------------------------

type node struct {
	sc      *Scenario
	tr      *tracer
	heads   chan int64
	cur     *Step // the step whose header was delivered last
	mu      sync.Mutex
	gotLogs chan struct{}
}

type ethService struct{ n *node }
type netService struct{}

func (netService) Version() string { return "5777" }

func header(num int64) *ethtypes.Header {
	return &ethtypes.Header{Number: big.NewInt(num), Difficulty: big.NewInt(1), GasLimit: 8000000, Time: uint64(1700000000 + num), Extra: []byte{}}
}

func (s *ethService) GetBlockByNumber(ctx context.Context, num string, full bool) (*ethtypes.Header, error) {
	return header(1), nil
}

func (s *ethService) Call(ctx context.Context, args map[string]interface{}, block string) (hexutil.Bytes, error) {
	out := make([]byte, 32)
	copy(out[12:], bankAddr.Bytes())
	return out, nil
}

type filterArgs struct {
	FromBlock string      `json:"fromBlock"`
	ToBlock   string      `json:"toBlock"`
	Address   interface{} `json:"address"`
}

func (s *ethService) GetLogs(ctx context.Context, q filterArgs) ([]*ethtypes.Log, error) {
	from, _ := hexutil.DecodeBig(q.FromBlock)
	to, _ := hexutil.DecodeBig(q.ToBlock)
	s.n.mu.Lock()
	st := s.n.cur
	s.n.mu.Unlock()
	mode := "ok"
	if st != nil {
		mode = st.Query
	}
	switch mode {
	case "kill":
		s.n.tr.line("Q %s %s killed", from, to)
		os.Exit(137)
	case "fail":
		s.n.tr.line("Q %s %s fail", from, to)
		select {
		case s.n.gotLogs <- struct{}{}:
		default:
		}
		return nil, fmt.Errorf("simulated failure of eth_getLogs")
	}
	s.n.tr.line("Q %s %s ok", from, to)
	abi := contract.LoadABI(txs.BridgeBank)
	evt := abi.Events["LogLock"]
	var logs []*ethtypes.Log
	for b := from.Int64(); b <= to.Int64(); b++ {
		for i, nonce := range s.n.sc.Events[b] {
			ef := EventOf(nonce)
			data, err := evt.Inputs.Pack(ef.Sender, []byte(ef.Recipient), ef.Token, ef.Symbol, ef.Amount, big.NewInt(nonce))
			if err != nil {
				panic(err)
			}
			logs = append(logs, &ethtypes.Log{Address: bankAddr, Topics: []common.Hash{evt.ID}, Data: data, BlockNumber: uint64(b),
				TxHash: common.BigToHash(big.NewInt(nonce)), TxIndex: uint(i), BlockHash: common.BigToHash(big.NewInt(b)), Index: uint(i)})
		}
		// other contract traffic in the same range: not a lock or burn
		if b%7 == 3 {
			other := abi.Events["LogUnlock"]
			data, _ := other.Inputs.Pack(senderAddr, common.Address{}, "eth", big.NewInt(5))
			logs = append(logs, &ethtypes.Log{Address: bankAddr, Topics: []common.Hash{other.ID}, Data: data, BlockNumber: uint64(b),
				TxHash: common.BigToHash(big.NewInt(900000 + b)), BlockHash: common.BigToHash(big.NewInt(b)), Index: 99})
		}
	}
	select {
	case s.n.gotLogs <- struct{}{}:
	default:
	}
	return logs, nil
}

func (s *ethService) NewHeads(ctx context.Context) (*rpc.Subscription, error) {
	notifier, ok := rpc.NotifierFromContext(ctx)
	if !ok {
		return nil, rpc.ErrNotificationsUnsupported
	}
	sub := notifier.CreateSubscription()
	go func() {
		for {
			select {
			case n := <-s.n.heads:
				_ = notifier.Notify(sub.ID, header(n))
			case <-sub.Err():
				return
			case <-notifier.Closed():
				return
			}
		}
	}()
	return sub, nil
}

// ---- fake Tendermint node for the Cosmos listener (NewBlock subscription, block_results without events) ----

type tmNode struct{ blocks chan int64 }

func startTMNode() (*tmNode, string) {
	n := &tmNode{blocks: make(chan int64, 64)}
	subscribe := func(ctx *tmrpctypes.Context, q string) (*ctypes.ResultSubscribe, error) {
		id := ctx.JSONReq.ID
		go func() {
			for h := range n.blocks {
				block := tmtypes.MakeBlock(h, nil, nil, nil)
				ev := &ctypes.ResultEvent{Query: q, Data: tmtypes.EventDataNewBlock{Block: block}}
				_ = ctx.WSConn.WriteRPCResponse(context.Background(), tmrpctypes.NewRPCSuccessResponse(id, ev))
			}
		}()
		return &ctypes.ResultSubscribe{}, nil
	}
	unsubscribe := func(ctx *tmrpctypes.Context, q string) (*ctypes.ResultUnsubscribe, error) {
		return &ctypes.ResultUnsubscribe{}, nil
	}
	blockResults := func(ctx *tmrpctypes.Context, height *int64) (*ctypes.ResultBlockResults, error) {
		return &ctypes.ResultBlockResults{Height: *height, TxsResults: []*abci.ResponseDeliverTx{}}, nil
	}
	routes := map[string]*tmrpcserver.RPCFunc{
		"subscribe":     tmrpcserver.NewWSRPCFunc(subscribe, "query"),
		"unsubscribe":   tmrpcserver.NewWSRPCFunc(unsubscribe, "query"),
		"block_results": tmrpcserver.NewRPCFunc(blockResults, "height"),
	}
	logger := tmlog.NewNopLogger()
	mux := http.NewServeMux()
	wm := tmrpcserver.NewWebsocketManager(routes)
	wm.SetLogger(logger)
	mux.HandleFunc("/websocket", wm.WebsocketHandler)
	tmrpcserver.RegisterRPCFuncs(mux, routes, logger)
	lis, err := net.Listen("tcp", "127.0.0.1:0")
	if err != nil {
		panic(err)
	}
	go func() { _ = http.Serve(lis, mux) }()
	return n, "tcp://" + lis.Addr().String()
}

func recipient() string {
	return sdk.AccAddress([]byte("verif-recipient-addr")).String()
}

// EventFields are the fields of the LogLock event the fake node emits for a nonce: they differ from one nonce to the
// next, so that a claim can be matched against the event it stands for.
type EventFields struct {
	Sender, Token common.Address
	Symbol        string
	Amount        *big.Int
	Recipient     string
}

func EventOf(nonce int64) EventFields {
	ef := EventFields{Sender: common.BigToAddress(big.NewInt(0xcc + nonce%3)), Symbol: "eth", Amount: big.NewInt(1000 + nonce), Recipient: recipient()}
	if nonce%2 == 1 {
		ef.Token, ef.Symbol = common.HexToAddress("0x00000000000000000000000000000000000000dd"), "USDC"
		ef.Recipient = sdk.AccAddress([]byte("verif-recipient-two!")).String()
	}
	switch k := nonce % 100; {
	case k >= 75: // "eth" with a token address: refused by txs.EthereumEventToEthBridgeClaim
		ef.Token, ef.Symbol = common.HexToAddress("0x00000000000000000000000000000000000000dd"), "eth"
	case k >= 50: // a recipient the bridge contract accepts (42 bytes, "sif" prefix) with a wrong bech32 checksum
		r := []byte(ef.Recipient)
		if r[len(r)-1] == 'q' {
			r[len(r)-1] = 'p'
		} else {
			r[len(r)-1] = 'q'
		}
		ef.Recipient = string(r)
	}
	return ef
}

// Translatable: whether the relayer can turn the event of this nonce into a claim (see EventOf).
func Translatable(nonce int64) bool { return nonce%100 < 50 }

// ---- fake Tendermint client ---------------------------------------------------------------------------

type fakeTM struct {
	rpcclient.Client
	n   *node
	dec sdk.TxDecoder
}

func (f *fakeTM) record(txBytes tmtypes.Tx) {
	f.n.mu.Lock()
	st := f.n.cur
	f.n.mu.Unlock()
	mode := "none"
	if st != nil && st.Submit != "" {
		mode = st.Submit
	}
	if mode == "kill_before_submit" {
		f.n.tr.line("B killed-before")
		os.Exit(137)
	}
	t, err := f.dec(txBytes)
	if err != nil {
		f.n.tr.line("B undecodable %v", err)
		return
	}
	for _, m := range t.GetMsgs() {
		if c, ok := m.(*ethbridgetypes.MsgCreateEthBridgeClaim); ok {
			f.n.tr.line("S %d", c.EthBridgeClaim.Nonce)
			k := c.EthBridgeClaim
			f.n.tr.line("C %d %d %s %s %s %s %s %d %s %s", k.EthereumChainId, k.Nonce, k.EthereumSender, k.TokenContractAddress, k.Symbol, k.Amount.String(), k.CosmosReceiver,
				int32(k.ClaimType), k.BridgeContractAddress, k.ValidatorAddress)
		} else {
			f.n.tr.line("B other-message %T", m)
		}
	}
	if mode == "kill_in_submit" {
		os.Exit(137)
	}
	if mode == "kill_after_submit" {
		go func() { time.Sleep(1500 * time.Millisecond); os.Exit(137) }()
	}
}

func (f *fakeTM) BroadcastTxCommit(ctx context.Context, txb tmtypes.Tx) (*ctypes.ResultBroadcastTxCommit, error) {
	f.record(txb)
	return &ctypes.ResultBroadcastTxCommit{Hash: txb.Hash(), Height: 1}, nil
}
func (f *fakeTM) BroadcastTxSync(ctx context.Context, txb tmtypes.Tx) (*ctypes.ResultBroadcastTx, error) {
	f.record(txb)
	return &ctypes.ResultBroadcastTx{Hash: txb.Hash()}, nil
}
func (f *fakeTM) BroadcastTxAsync(ctx context.Context, txb tmtypes.Tx) (*ctypes.ResultBroadcastTx, error) {
	f.record(txb)
	return &ctypes.ResultBroadcastTx{Hash: txb.Hash()}, nil
}

type fakeAccounts struct{}

func (fakeAccounts) GetAccount(clientCtx client.Context, addr sdk.AccAddress) (client.Account, error) {
	return nil, fmt.Errorf("not needed")
}
func (fakeAccounts) GetAccountWithHeight(clientCtx client.Context, addr sdk.AccAddress) (client.Account, int64, error) {
	return nil, 0, fmt.Errorf("not needed")
}
func (fakeAccounts) EnsureExists(clientCtx client.Context, addr sdk.AccAddress) error { return nil }
func (fakeAccounts) GetAccountNumberSequence(clientCtx client.Context, addr sdk.AccAddress) (uint64, uint64, error) {
	return 7, 1, nil
}

// ReadCursor opens the relayer's LevelDB and returns the persisted cursor (0 if absent).
func ReadCursor(dir string) int64 {
	db, err := leveldb.OpenFile(dir, nil)
	if err != nil {
		// a killed process may leave the lock file; recover
		db, err = leveldb.RecoverFile(dir, nil)
		if err != nil {
			return -1
		}
	}
	defer db.Close()
	data, err := db.Get([]byte(DBKey), nil)
	if err != nil {
		return 0
	}
	return new(big.Int).SetBytes(data).Int64()
}

// RunSegment is the child process: plays sc.Steps[sc.StartAt:] until the schedule ends (exit 0) or a kill (exit 137).
func RunSegment(scFile string) {
	bz, err := os.ReadFile(scFile)
	if err != nil {
		panic(err)
	}
	var sc Scenario
	if err := json.Unmarshal(bz, &sc); err != nil {
		panic(err)
	}
	sifapp.SetConfig(false)
	_ = os.Setenv("ETHEREUM_PRIVATE_KEY", ethPrivKey)
	f, err := os.OpenFile(sc.Trace, os.O_APPEND|os.O_CREATE|os.O_WRONLY, 0o644)
	if err != nil {
		panic(err)
	}
	tr := &tracer{f: f}
	n := &node{sc: &sc, tr: tr, heads: make(chan int64, 16), gotLogs: make(chan struct{}, 4)}

	// Ethereum node on a free local port
	srv := rpc.NewServer()
	if err := srv.RegisterName("eth", &ethService{n}); err != nil {
		panic(err)
	}
	if err := srv.RegisterName("net", netService{}); err != nil {
		panic(err)
	}
	ln, err := net.Listen("tcp", "127.0.0.1:0")
	if err != nil {
		panic(err)
	}
	go func() { _ = http.Serve(ln, srv.WebsocketHandler([]string{"*"})) }()
	url := "ws://" + ln.Addr().String()

	db, err := leveldb.OpenFile(sc.DBDir, nil)
	if err != nil {
		db, err = leveldb.RecoverFile(sc.DBDir, nil)
		if err != nil {
			panic(err)
		}
	}
	enc := sifapp.MakeTestEncodingConfig()
	kr, info, err := relayer.NewKeybase(valName, mnemonic, "")
	if err != nil {
		panic(err)
	}
	tm := &fakeTM{n: n, dec: enc.TxConfig.TxDecoder()}
	cliCtx := client.Context{}.WithClient(tm).WithTxConfig(enc.TxConfig).WithCodec(enc.Marshaler).WithInterfaceRegistry(enc.InterfaceRegistry).
		WithBroadcastMode(flags.BroadcastBlock).WithFromName(valName).WithFromAddress(info.GetAddress()).WithSkipConfirmation(true).
		WithKeyring(kr).WithChainID("sifchain-verif").WithOutput(io.Discard).WithAccountRetriever(fakeAccounts{})
	txf := tx.Factory{}.WithTxConfig(enc.TxConfig).WithKeybase(kr).WithChainID("sifchain-verif").WithAccountRetriever(fakeAccounts{}).
		WithAccountNumber(7).WithSequence(1)
	logger := zap.NewNop().Sugar()
	sub := relayer.NewEthereumSub(cliCtx, "tcp://127.0.0.1:1", valName, url, registryAddr, sdk.ValAddress(info.GetAddress()), db, logger)
	var wg sync.WaitGroup
	wg.Add(1)
	var translator *txs.VerifSymbolTranslator
	go sub.Start(txf, &wg, translator)
	var tmn *tmNode
	if sc.Cosmos {
		var tmURL string
		tmn, tmURL = startTMNode()
		csub := relayer.NewCosmosSub(tmURL, url, registryAddr, nil, db, logger)
		wg.Add(1)
		go csub.Start(&wg, translator)
	}
	time.Sleep(2500 * time.Millisecond) // Start sleeps one second, then dials, looks the bridge bank up and subscribes
	cosmosCursor := func() int64 {
		data, err := db.Get([]byte("cosmosLastProcessedBlock"), nil)
		if err != nil {
			return 0
		}
		return new(big.Int).SetBytes(data).Int64()
	}
	// a Sifchain block for the other listener, before the next Ethereum header is announced
	sifBlock := func(i int) {
		if tmn == nil {
			return
		}
		h := int64(100000 + 2*i)
		tmn.blocks <- h
		tmn.blocks <- h + 1 // the listener handles a block when the next one is announced
		deadline := time.Now().Add(3 * time.Second)
		for cosmosCursor() < h && time.Now().Before(deadline) {
			time.Sleep(20 * time.Millisecond)
		}
		tr.line("X %d %d", i, cosmosCursor())
	}

	readCursor := func() int64 {
		data, err := db.Get([]byte(DBKey), nil)
		if err != nil {
			return 0
		}
		return new(big.Int).SetBytes(data).Int64()
	}
	for i := sc.StartAt; i < len(sc.Steps); i++ {
		st := sc.Steps[i]
		n.mu.Lock()
		n.cur = &sc.Steps[i]
		n.mu.Unlock()
		sifBlock(i)
		before := readCursor()
		tr.line("H %d %d", i, st.N)
		n.heads <- st.N
		ending := st.N - 50
		if ending < 0 {
			time.Sleep(300 * time.Millisecond)
			tr.line("D %d %d", i, readCursor())
			continue
		}
		// wait for the log query of this header
		select {
		case <-n.gotLogs:
		case <-time.After(8 * time.Second):
			tr.line("T %d no-log-query", i)
			os.Exit(3)
		}
		if st.Query == "fail" {
			time.Sleep(300 * time.Millisecond)
			tr.line("D %d %d", i, readCursor())
			continue
		}
		// wait until the cursor of this iteration is written (ending + 1): at once for a range without burn / lock
		// events, after the 10 s sleep that follows a submission otherwise
		deadline := time.Now().Add(14 * time.Second)
		for readCursor() != ending+1 {
			if time.Now().After(deadline) {
				tr.line("T %d cursor-not-written %d", i, readCursor())
				os.Exit(3)
			}
			time.Sleep(50 * time.Millisecond)
		}
		_ = before
		tr.line("D %d %d", i, readCursor())
	}
	tr.line("E %d", readCursor())
	os.Exit(0)
}

var _ = strings.TrimSpace
