// Package report is the JSON handed from the Go harness to bin/check.
package report

import (
	"encoding/json"
	"os"
)

type Violation struct {
	Sig    string      `json:"sig"`    // stable signature used to match known findings
	Detail string      `json:"detail"` // human readable
	Replay interface{} `json:"replay"` // concrete failing input / history
}

type Report struct {
	Property           string                 `json:"property"`
	Seed               int64                  `json:"seed"`
	Tier               string                 `json:"tier"`
	Evaluations        int                    `json:"evaluations"`
	DistinctNontrivial int                    `json:"distinct_nontrivial"`
	Rule               string                 `json:"rule"`
	Samples            []interface{}          `json:"samples"`
	Distribution       map[string]interface{} `json:"distribution"`
	ImplTraces         int                    `json:"impl_traces"`
	CaseFiles          []string               `json:"case_files"`
	Violations         []Violation            `json:"violations"`
	// CaseIndex maps case ids of the Coq case files to replayable descriptions
	CaseIndex map[string]interface{} `json:"case_index"`
	Notes     []string               `json:"notes"`
}

func New(prop string, seed int64, tier string) *Report {
	return &Report{Property: prop, Seed: seed, Tier: tier, Distribution: map[string]interface{}{}, CaseIndex: map[string]interface{}{}}
}

func (r *Report) Count(key string) {
	v, _ := r.Distribution[key].(int)
	r.Distribution[key] = v + 1
}

func (r *Report) Violate(sig, detail string, replay interface{}) {
	r.Violations = append(r.Violations, Violation{sig, detail, replay})
}

func (r *Report) Sample(s interface{}) {
	if len(r.Samples) < 3 {
		r.Samples = append(r.Samples, s)
	}
}

func (r *Report) Write(path string) {
	bz, err := json.MarshalIndent(r, "", " ")
	if err != nil {
		panic(err)
	}
	if err := os.WriteFile(path, bz, 0o644); err != nil {
		panic(err)
	}
}
